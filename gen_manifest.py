#!/usr/bin/env python3
"""Regenerate MANIFEST.json from checkspec.py (claimed properties) and manifest_text.py."""
import json
import os
import subprocess
import sys

HERE = os.path.dirname(os.path.abspath(__file__))
sys.path.insert(0, HERE)
from checkspec import PROPS  # noqa: E402
from manifest_text import TEXT, NOT_CLAIMED  # noqa: E402

ids = [json.loads(l)["id"] for l in open(os.path.join(HERE, "properties.jsonl"))]
hooks = subprocess.run(["git", "-C", "/repo", "log", "--format=%h %s"], stdout=subprocess.PIPE, text=True).stdout.splitlines()
hook_commits = [l.split()[0] for l in hooks if l.split(" ", 1)[1].startswith("verif hook")]

ENGINE_OF = {"cluster": "clustersim", "logsim": "logsim", "smsim": "smsim", "mergesim": "mergesim", "scansim": "scansim", "snapsim": "snapsim"}
checks = []
for pid in ids:
    if pid not in PROPS:
        continue
    spec = PROPS[pid]
    t = TEXT[pid]
    eng = ENGINE_OF[spec.get("engine", "cluster")]
    checks.append({
        "property_id": pid,
        "quick_cmd": f"./check {pid} --tier quick",
        "thorough_cmd": f"./check {pid} --tier thorough",
        "evidence_file": f"/verif/evidence/{pid}.json",
        "replay_cmd_template": "./check --replay {path}",
        "engine": eng,
        "level_claimed": {"category": spec.get("level", "exploration"), "text": t["level"], "design_ref": t.get("ref", "DESIGN.md §7")},
        "level_note": t["note"],
        "technique": t.get("technique", "deterministic simulation with fault injection: seeded search over schedules and fault "
                                        "sequences of the real node code on a simulated network/disk/clock"),
    })
na = []
for pid in ids:
    if pid in PROPS:
        continue
    na.append({"property_id": pid, "reason": NOT_CLAIMED.get(pid, "not claimed: no check built for it")})

m = {
    "version": 1,
    "setup_cmd": "cd /verif/sim && CARGO_NET_OFFLINE=true cargo build --offline",
    "hooks": {
        "guard": "d_engine_verif",
        "enable": "RUSTFLAGS --cfg d_engine_verif via /verif/sim/.cargo/config.toml ([build] rustflags); /repo's Cargo files untouched",
        "baseline_off_cmd": "cd /repo && cargo nextest run --workspace --no-fail-fast --test-threads 8 --offline",
        "source_commits": hook_commits,
        "add_only": True,
    },
    "engines": [
        {"name": "clustersim", "path": "/verif/sim (dsim cluster)", "serves_properties": [p for p in ids if p in PROPS and PROPS[p].get("engine", "cluster") == "cluster"],
         "kind_free_text": "E1: 1-7 real d-engine nodes, clients, simulated network/disk/clock on one thread; seeded plans of faults and client operations"},
        {"name": "logsim", "path": "/verif/sim (dsim logsim)", "serves_properties": [p for p in ids if p in PROPS and PROPS[p].get("engine") == "logsim"],
         "kind_free_text": "E2: one BufferedRaftLog / LogStore / MetaStore under operation plans with crashes"},
        {"name": "smsim", "path": "/verif/sim (dsim smsim)", "serves_properties": [p for p in ids if p in PROPS and PROPS[p].get("engine") == "smsim"],
         "kind_free_text": "E3: one state machine / handler / watch stack under command plans with crashes"},
        {"name": "snapsim", "path": "/verif/sim (dsim snapsim)", "serves_properties": [p for p in ids if p in PROPS and PROPS[p].get("engine") == "snapsim"],
         "kind_free_text": "E3 variant: a real snapshot streamed with injected faults from one real state machine handler into another"},
        {"name": "scansim", "path": "/verif/sim (dsim scansim)", "serves_properties": [p for p in ids if p in PROPS and PROPS[p].get("engine") == "scansim"],
         "kind_free_text": "E3 variant: prefix scans interleaved with applies at guarded schedule points on the real File/RocksDB state machines"},
        {"name": "mergesim", "path": "/verif/sim (dsim mergesim)", "serves_properties": [p for p in ids if p in PROPS and PROPS[p].get("engine") == "mergesim"],
         "kind_free_text": "E1 variant: two real follower nodes fed the same AppendEntries sequence, in bursts vs one at a time"},
    ],
    "checks": checks,
    "notes": "Every check rebuilds /verif/sim (which compiles /repo's working tree with --cfg d_engine_verif), fans seeded runs out over 16 "
             "worker processes, matches violations against /verif/known_findings.json, minimises and replays new ones. "
             "VERIF_SEED and VERIF_TIER are honoured. Exit 2 = harness error.",
    "not_applicable": na,
}
with open(os.path.join(HERE, "MANIFEST.json"), "w") as f:
    json.dump(m, f, indent=1)
print("claimed", len(checks), "not claimed", len(na))

#!/usr/bin/env python3
"""Print the prompt given to a mutation sub-agent: property text + its scratch worktree. Nothing from /verif."""
import json, sys
pid = sys.argv[1]
wt = sys.argv[2] if len(sys.argv) > 2 else f"/tmp/wt-m{pid}"
hint = sys.argv[3] if len(sys.argv) > 3 else ""
p = next(json.loads(l) for l in open('/verif/properties.jsonl') if json.loads(l)['id'] == pid)
print(f"""You are helping test a verification effort for the open-source Rust project deventlab/d-engine (an embeddable Raft consensus engine: leader/follower/learner roles, membership changes, snapshots, buffered log persistence, file/RocksDB state machines, TTL leases, tiered read consistency).

You have your own scratch git worktree of the repository at {wt} (detached HEAD; its own cargo target directory {wt}/target is pre-populated with dependency artifacts, so builds are incremental). Work ONLY inside {wt}. Do not read or touch /repo, /verif or any other /tmp/wt-* directory. There is no network; always pass --offline to cargo (e.g. `cd {wt} && CARGO_NET_OFFLINE=true cargo test -p d-engine-core --lib --offline -j 6 <filter>`). Other jobs share this machine, so keep `-j 6`. Never run `cargo clean`.

The semantic property under test:

  {p['id']} — {p['title']}
  {p['statement']}

YOUR TASK: write one realistic source change (a "seeded defect") to the d-engine production code (not tests) that BREAKS this property while
  (a) still compiling without new warnings-as-errors,
  (b) still passing the existing test suite of every crate you touch (run it: `CARGO_NET_OFFLINE=true cargo nextest run -p <crate> --offline --no-fail-fast -j 6` or `cargo test -p <crate> --offline`; on the unmodified tree the only pre-existing failures are two `file_io_test::*permission_denied` tests (sandbox runs as root) and occasionally timing-sensitive tests under load — re-run a failing test alone before concluding it is caused by your change), and
  (c) needing something SPECIFIC to manifest — a particular interleaving, a crash or fault at a particular point, a multi-step sequence of operations, an unusual input or configuration value, or two cooperating sites that each look fine alone. NOT a change that ordinary use (a single happy-path put/get on a healthy cluster) would expose at once. Think of the kind of plausible bug a maintainer could introduce in a refactor or an optimisation: an off-by-one on a boundary, a dropped condition, a reordered pair of statements, a state not reset/persisted on one path, a stale cached value, a wrong comparison operator on a rare branch, a missing fsync/flush, an early return that skips bookkeeping.{(' ' + hint) if hint else ''}

Also write a DEMONSTRATION: a new test (prefer a new test function or a new test file wired into the crate's existing test module layout, or a small example program) that FAILS with your change applied and PASSES on the unmodified tree. The demonstration should exercise real d-engine code (unit/integration level is fine, mocks from the crate's existing test utilities are fine) and show the property being violated, not merely that a line changed.

Deliverables, all inside {wt}/MUTATION/ (create the directory):
  - patch.diff : `git diff` of ONLY the production-code change (no tests, no demo). It must apply with `git apply` to a clean checkout of the same commit.
  - demo.diff  : `git diff`/new-file diff of ONLY the demonstration (it must apply on a clean checkout on its own, and also on top of patch.diff).
  - README.md  : which file/function you changed and why it breaks the property; exactly what is needed for the breakage to manifest (sequence, interleaving, crash point, inputs, configuration); the exact commands you ran (test suites + the demo with and without the change) and their results (pass/fail counts).
To produce the two diffs cleanly: make the production change and the demo in the worktree, then e.g. `git diff -- <production files> > MUTATION/patch.diff` and `git add -N <new test files>; git diff -- <test files> > MUTATION/demo.diff`. Verify both by `git stash`/`git apply --check` style round trips if you can. Leave the worktree with both changes applied at the end.

Before finishing, actually verify: (1) demo passes without patch, (2) demo fails with patch, (3) the touched crates' existing tests pass with the patch. Report honestly if any of these could not be achieved. Your final message should be a brief summary (what you changed, what it needs to manifest, verification results).""")

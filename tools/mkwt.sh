#!/bin/bash
# usage: mkwt.sh <name>  - scratch git worktree of /repo HEAD at /tmp/wt-<name> with a target dir whose
# dependency artifacts are hard links to the template /tmp/tmpl (built once from /repo/target)
set -e
n=$1
d=/tmp/wt-$n
git -C /repo worktree add --detach -f "$d" HEAD >/dev/null 2>&1
mkdir -p "$d/target"
[ -d /tmp/tmpl/debug ] && cp -al /tmp/tmpl/debug "$d/target/debug"
echo "$d"

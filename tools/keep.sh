#!/bin/bash
# usage: keep.sh <worktree> <seeded-id>  - copy a sub-agent's MUTATION deliverables to /verif/seeded/<id>/
set -e
wt=$1; id=$2
mkdir -p /verif/seeded/$id
cp $wt/MUTATION/patch.diff /verif/seeded/$id/patch.diff
cp $wt/MUTATION/demo.diff /verif/seeded/$id/demo.diff
cp $wt/MUTATION/README.md /verif/seeded/$id/AGENT_README.md
ls -la /verif/seeded/$id

#!/bin/bash
# usage: reflake.sh <seeded-id> <crate> <test-name>...   - with the seeded change applied in /tmp/wt-probe, re-run the named
# (load-sensitive) tests alone up to 3 times each at a quieter moment and append the outcome to the confirmation log
id=$1; crate=$2; shift 2
S=/verif/seeded/$id; W=/tmp/wt-probe
cd $W || exit 2
git checkout -q -- . && git clean -fdq -e target
git apply $S/patch.diff || exit 2
export CARGO_NET_OFFLINE=true
echo "## 5. load-sensitive failures re-run alone later, with the change ($(date -u +%FT%TZ), load $(cut -d' ' -f1 /proc/loadavg))" >> $S/confirm.log
for t in "$@"; do
  ok=0
  for i in 1 2 3; do
    if cargo nextest run -p $crate --offline --test-threads 1 -E "test(=$t)" 2>&1 | grep -q "1 passed"; then ok=1; break; fi
  done
  echo "$t : $([ $ok = 1 ] && echo passed || echo 'FAILED 3x')" >> $S/confirm.log
done
git checkout -q -- . && git clean -fdq -e target
tail -4 $S/confirm.log

#!/usr/bin/env python3
"""usage: meta.py <seeded-id> <property> <needs> <detected_by json> [notes]  - write /verif/seeded/<id>/meta.json"""
import json, sys, os, subprocess
sid, prop, needs, det = sys.argv[1:5]
notes = sys.argv[5] if len(sys.argv) > 5 else ""
d = f"/verif/seeded/{sid}"
conf = open(f"{d}/confirm.log").read() if os.path.exists(f"{d}/confirm.log") else ""
meta = {
    "id": sid,
    "property": prop,
    "origin": "written blind by a sub-agent that saw only the property text and its own scratch worktree of /repo (nothing from /verif)",
    "base_commit": "b144e1c",
    "files": {"patch": "patch.diff", "demonstration": "demo.diff", "agent_notes": "AGENT_README.md", "confirmation_log": "confirm.log"},
    "needs_to_manifest": needs,
    "confirmed_in_scratch_worktree": {
        "how": "tools/confirm.sh in /tmp/wt-probe (git worktree of /repo, removed afterwards): demo alone passes, demo + patch fails, "
               "existing suite of the touched crate passes with the patch (failures re-run alone; the two *permission_denied tests fail on the pinned tree too)",
        "log_excerpt": [l for l in conf.splitlines() if l.startswith("#") or "test result" in l or "Summary" in l][:16],
    },
    "ran_against_checks": "mutest.sh: git -C /repo apply patch.diff; ./check <ID> --tier quick; git -C /repo checkout -- .",
    "detected_by": json.loads(det),
    "notes": notes,
}
json.dump(meta, open(f"{d}/meta.json", "w"), indent=1)
print("wrote", f"{d}/meta.json")

#!/bin/bash
# usage: confirm.sh <seeded-id> <crate> <demo-test-filter> [extra cargo test args]
# Confirms a seeded change in the scratch worktree /tmp/wt-probe (never /repo):
#   1. demo alone passes   2. demo + patch fails   3. crate suite (without the demo) passes with the patch
id=$1; crate=$2; filter=$3
S=/verif/seeded/$id
W=/tmp/wt-probe
L=$S/confirm.log
cd $W || exit 2
git checkout -q -- . && git clean -fdq -e target
export CARGO_NET_OFFLINE=true
{
echo "# confirm $id  crate=$crate filter=$filter  base=$(git rev-parse --short HEAD)  $(date -u +%FT%TZ)"
git apply $S/demo.diff || { echo "DEMO DOES NOT APPLY"; exit 2; }
echo "## 1. demo on the unmodified tree"
cargo test -p $crate --offline -j 8 $filter 2>&1 | grep -E "^test |test result|error(\[|:)|panicked" | grep -v "^test .* ok$" | head -20
git apply $S/patch.diff || { echo "PATCH DOES NOT APPLY"; exit 2; }
echo "## 2. demo with the change"
cargo test -p $crate --offline -j 8 $filter 2>&1 | grep -E "^test |test result|error(\[|:)|panicked" | grep -v "^test .* ok$" | head -20
git apply -R $S/demo.diff
git clean -fdq -e target
echo "## 3. existing suite of $crate with the change (no demo)"
cargo nextest run -p $crate --offline --no-fail-fast --test-threads 8 2>&1 | grep -E "^\s+(FAIL|SIGABRT|TIMEOUT) |Summary|error:" | sort -u | head -40
} > $L 2>&1
# re-run failures alone
fails=$(grep -E "^\s+FAIL " $L | sed -E 's/.*\] +(\([^)]*\) +)?//' | awk '{print $NF}' | sort -u | grep -v permission_denied)
if [ -n "$fails" ]; then
  echo "## 4. failed tests re-run alone (with the change)" >> $L
  for t in $fails; do
    r=$(cargo nextest run -p $crate --offline --test-threads 1 -E "test(=$t)" 2>&1 | grep -E "Summary" | head -1)
    echo "$t : $r" >> $L
  done
fi
git checkout -q -- . && git clean -fdq -e target
cat $L

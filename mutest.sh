#!/bin/bash
# usage: mutest.sh <patch> <prop> [<prop> ...]   - apply a seeded change to /repo, run checks, undo
patch=$1; shift
cd /repo || exit 2
git apply "$patch" || { echo "patch does not apply"; exit 2; }
cd /verif
for p in "$@"; do
  tier=${MUT_TIER:-quick}
  out=$(./check $p --tier $tier 2>&1); rc=$?
  echo "== $p rc=$rc"; echo "$out" | grep -E "VIOLATION|kind=|HARNESS" | cut -c1-330
done
git -C /repo checkout -- .
git -C /repo status --short | head -3

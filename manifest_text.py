"""Level texts per claimed property, and reasons for properties not (yet) claimed."""

_E1 = ("Seeded exploration: every run executes the real d-engine node code of a 1-7 node cluster under a generated plan of "
       "network faults, crashes/restarts, slow disks/applies and concurrent client operations; the oracle below is evaluated "
       "while the run proceeds and over the recorded history. A clean batch is evidence for the explored seeds only. ")
_N1 = ("Trusted base: SimTransport (replica of the gRPC transport contract), SimStorageEngine, MemSm, the harness's replica of "
       "NodeBuilder wiring, vendored tokio with inline blocking + task groups, libc clock/getrandom seams. One global virtual "
       "clock; interleavings at await points and seam yields. Non-graceful crashes take down at most a minority of the voters "
       "at any time (the properties' quantifier); the sole voter of a 1-voter cluster is restarted gracefully, except in the "
       "C02 batches (DESIGN.md 8.1 FA2).")

TEXT = {
    "C01": {"level": _E1 + "Oracle: leader ledger (AppendEntries emitted with term T, Leader role reports) has at most one node per "
                           "term; a node grants at most one candidate per term within an incarnation. Clusters of 1-5 voters including the even "
                           "sizes 2 and 4 with half/half partitions; leaders isolated at the instant they are elected.", "note": _N1},
    "C02": {"level": _E1 + "Oracle over the vote/term ledger across incarnations: granted votes per (voter, term) go to one candidate "
                           "even across process crash / power loss / graceful restart; the term a node reports after restart is >= "
                           "every term it externalised before. Crashes include the event-anchored CrashOnGrant (the voter is killed at "
                           "the instant its n-th granted vote response leaves).", "note": _N1 + " SimMetaStore writes hard state through (ideal engine)."},
    "C03": {"level": _E1 + "Oracle at every Leader transition: the node's own voter view is empty, or granted term-T votes (recorded "
                           "when the response left the voter) form a majority of voters+self - under the view at election time or at "
                           "vote-request time.", "note": _N1},
    "C04": {"level": _E1 + "Invariant every 25 virtual ms over all live nodes' in-memory logs: entries with equal (index, term) have "
                           "equal payloads and all earlier common entries agree; each log is gap-free.", "note": _N1},
    "C05": {"level": _E1 + "Oracles: (a) at every Leader transition the log (or snapshot boundary) covers the whole commit ledger; "
                           "(b) a committed index never holds a different entry on a leader; (c) the ledger prefix a node holds never "
                           "shrinks within an incarnation.", "note": _N1 + " The majority-retention form across crashes is carried by C10's history check."},
    "C06": {"level": _E1 + "Apply ledger from the ObservedSm wrapper: per incarnation indexes increase by one, no index applied twice "
                           "(MemSm persists last_applied atomically), same command and outcome on every node, applied == committed, "
                           "final KV image == reference model over the committed prefix.", "note": _N1},
    "C07": {"level": _E1 + "At every follower/learner commit advance the newly committed entries equal the commit ledger (first reported "
                           "by the leader); no node applies an entry that is not in the ledger; a node never commits an index it does not hold.", "note": _N1},
    "C08": {"level": _E1 + "Every AppendEntries request built by a leader is checked at the transport seam for entries[k].index == "
                           "prev+1+k; follower logs are checked gap-free (C04 oracle). Per-request cap drawn from 1..100 with followers "
                           "lagging behind it.", "note": _N1},
    "C09": {"level": _E1 + "At every leader commit advance to N in term T: entry N has term T and the voters (leader's own membership "
                           "view) whose success ACK with match >= N and term T was delivered to this leader, plus the leader, are a majority; "
                           "and (literal form) a majority of those voters actually hold entry N in their live log at that instant. "
                           "Includes a batch with learner promotions exposed.", "note": _N1},
    "C10": {"level": _E1 + "Client history (invoke/return stamped with a global event sequence) checked per key for linearizability with "
                           "crashes invisible; every acknowledged write must be in the commit/apply ledger, and at the end of the run its entry "
                           "is still what every live node holds at that committed index (acked_write_lost); a final linearizable read "
                           "of every key through the leader closes each history.", "note": _N1 + " Histories over 60 ops or 12 indeterminate ops per key are reported as not checked."},
    "C11": {"level": _E1 + "Linearizability check of all acknowledged LinearizableRead results together with all writes, under leader "
                           "isolation longer than the lease, slow return paths and apply lag (scenario 'lease', 3 and 5 voters).", "note": _N1},
    "C12": {"level": _E1 + "Lease reads (fast path through EmbeddedClient/read handle and the Raft path) are included in the "
                           "linearizability check; every configuration the generator draws passes validate() and is asserted to have "
                           "lease < election_timeout_min. Direct oracle: a lease read answered by a node after another node acted as "
                           "leader of a higher term, with the cause classified from the ACK ledger (which voters/learners acknowledged "
                           "the deposed leader in the lease window, and when the acknowledged requests were sent).", "note": _N1 + " Equal-rate clocks assumed."},
    "C13": {"level": _E1 + "Scenario 'routing': every read carries a unique never-written marker key, so the state-machine read that "
                           "produced each answer is identified together with the handle it came through (Raft loop, ReadActor, embedded "
                           "direct path), the node's role and its lease validity at that instant. Reads go through the raw command "
                           "channel, the EmbeddedClient and the real tonic handler Node::handle_client_read, to leaders, followers, "
                           "learners and isolated ex-leaders, with server default policy and allow_client_override drawn per run. "
                           "Oracles: a strong (effective) read answered with data was served by a leader; with overrides disallowed "
                           "the effective policy is the server default on every path (no fast path for a Linearizable default, no "
                           "lease-less fast path for a LeaseRead default, no not-leader rejection for an Eventual default); a stable "
                           "follower/learner answers strong reads with a not-leader error.", "note": _N1},
    "C14": {"level": _E1 + "Writes definitely rejected (not leader, back-pressure, empty/invalid command) carry unique values; none of them "
                           "may appear in any node's apply ledger, and one submission is applied at most once.", "note": _N1},
    "C16": {"level": _E1 + "Every snapshot generated in a cluster run is checked: recorded boundary == last_applied of the captured state; "
                           "install + replay divergence shows up as C06 apply/state differences in the same runs.", "note": _N1 + " MemSm engine only in cluster runs."},
    "C17": {"level": "Seeded exploration with fault injection on the snapshot stream: a real snapshot of a leader-side handler is streamed "
                     "chunk by chunk into the follower-side apply_snapshot_stream_from_leader, pristine or with one fault (drop, duplicate, "
                     "reorder, data or checksum corruption, leader id/term change mid-stream, missing metadata, early close, stall past the "
                     "chunk timeout on virtual time, wrong total, aborted attempt followed by a complete retry). Oracle: the follower's "
                     "contents, applied index, snapshot metadata and final-named snapshot files are untouched unless the stream was "
                     "complete, in order and uncorrupted from one leader and term, in which case they equal the leader's snapshot.",
            "note": "MemSm behind the real handler; crash points inside assembly/finalize are not injected (see C16 engine batch / KF17 for "
                    "the engine-side install crash)."},
    "C18": {"level": "Seeded exploration at component level: generated operation plans on the real BufferedRaftLog and its IO task (run on the "
                     "simulator thread) over a store with a page-cache/durable split; crashes (process crash: unsynced-but-written data "
                     "survives; power loss: synced data plus a torn prefix of the unsynced operations) at plan points; after reopen the log "
                     "must be gap-free, contain everything flush()/durable_index() had reported durable and not since replaced, and must "
                     "not resurrect replaced entries.",
            "note": "Trusted base: SimStorageEngine, vendored tokio, libc seams. File/RocksDB engines are covered at store level by C20/C21, not here."},
    "C19": {"level": "Seeded exploration: after every operation every query of the buffered log (first/last id, last_log_id, entry_term over "
                     "the whole window, first/last index per term, range reads, conflict-append result, majority index) is compared with a "
                     "plain reference log; indexes <= 24, forking histories make term boundaries, truncation and purge dense.",
            "note": "Trusted base: the reference LogModel (about 60 lines). Inputs are legal Raft request shapes only."},
    "C20": {"level": "Seeded exploration: File and RocksDB LogStores against a reference store, live and after close+reopen, for the in-order "
                     "usage BufferedRaftLog produces (main batch) and for arbitrary out-of-order / gapped indexes (exposed batch).",
            "note": "Reopen is a graceful close, not a crash; RocksDB crash points are not simulated (no file-system seam below RocksDB)."},
    "C21": {"level": "Fault enumeration: every crash point of FileMetaStore::save_to_file (guarded hooks) x process-crash image, plus every "
                     "torn prefix at the not-yet-synced points; each image reopened must load the old or the new hard state. RocksDB: "
                     "saved value survives close+reopen.",
            "note": "Exhaustive over hook points x tear lengths for each generated pair; RocksDB power loss is not simulated."},
    "C15": {"level": "Seeded exploration with real process kills: every lifetime of the state machine is a child process on a real directory "
                     "(tmpfs); a kill is abort() after an operation or at a guarded crash point inside an engine write; the parent reopens the "
                     "directory the way a restarting node does, checks applied index vs contents against the reference model of the prefix, "
                     "re-applies the unreported suffix and checks the result against the model of the whole log.",
            "note": "Process-crash semantics (what was written survives); power loss below RocksDB / the page cache is not simulated. The "
                    "node-level path (commit index restarting at the applied index) is replicated by the harness, not executed."},
    "C22": {"level": "Seeded exploration: generated command sequences and chunkings on the real File and RocksDB state machines, each compared "
                     "operation by operation with one chunk-independent reference model (so the engines agree with each other and across splits).",
            "note": "Inputs are decoded Commands (the decode step in command.rs is exercised by the cluster runs, C37)."},
    "C23": {"level": "Seeded exploration over a virtual wall clock (libc clock seam): TTL puts, overwrites, CAS, deletes, clock advances, cleanup "
                     "runs, graceful restarts, kills and downtime on the real engines with the real TtlLease; expiry and survival are judged "
                     "with a 1 s slack around each deadline.",
            "note": "Snapshot install of TTL state is not covered here (cluster runs use MemSm)."},
    "C24": {"level": _E1 + "Scenario 'watch': 1-5 watcher tasks per run on the real WatchRegistry/WatchDispatcher of real nodes (exact and "
                           "'/'-terminated prefix watchers, with and without prev_kv, slow consumers, handles dropped mid-run), small "
                           "event_queue_size / watcher_buffer_size so that both overflow kinds occur, apply stalls that release bursts, "
                           "Progress heartbeats on. Per watcher, against the apply ledger of the watched node incarnation: every data event "
                           "is an applied put/delete/successful CAS on a matching key with revision = index and the applied value, "
                           "revisions strictly increase, no event for a failed CAS, nothing after CANCELED, no data event at or below a "
                           "Progress revision, and the events since registration are a gap-free prefix of the matching applied changes "
                           "(complete if the stream is still open at the end of the quiet period).", "note": _N1},
    "C25": {"level": "Seeded exploration on the real File and RocksDB state machines: prefix scans (shared prefixes, 0xFF boundary bytes) "
                     "quiescent, issued from inside apply_chunk at guarded points, and with an apply_chunk driven from inside scan_prefix "
                     "between the iteration and the read of the revision. Oracle: returned entries == reference model at the returned "
                     "revision restricted to the prefix; and the documented resynchronisation (scanned entries + every later change with "
                     "revision > scan.revision) reproduces the final state.",
            "note": "The serialised simulator cannot interleave two threads by itself; the schedule points are guarded hooks in the engines "
                    "(MANIFEST.hooks). The empty prefix is not generated (the gRPC API requires a leading '/'; the engines differ on it)."},
    "C26": {"level": _E1 + "Every 25 virtual ms: for every two live nodes that are voters in their own view, no majority of one view is "
                           "disjoint from a majority of the other (closed form over the two voter sets).", "note": _N1},
    "C27": {"level": _E1 + "No vote request or granted vote ever originates from a node whose role is Learner; learners' ACKs are never "
                           "needed for a commit (C09 oracle in the same runs); a read served by a deposed leader whose only recent "
                           "acknowledgements came from learners is a learner counted toward a lease/read quorum (scenario leaselearner: "
                           "the leader is cut off from the voters together with a learner).", "note": _N1 + " Join-response timing and promotion catch-up are not checked."},
    "C28": {"level": _E1 + "Membership plans (learners joining, automatic promotion) with graceful restarts, process crashes, power loss and "
                           "whole-cluster restarts of any node at any point, each restart with the original initial_cluster. Oracle "
                           "right after every rebuild: members/voters/learners of the node equal the fold of all committed "
                           "membership changes at or below the node's applied index (taken from the commit ledger) over its "
                           "initial configuration; and at the end of the run every membership change the node applied again after a restart "
                           "is in its view.", "note": _N1 + " The harness replicates NodeBuilder's start-up decisions (membership from initial_cluster, commit index = applied index)."},
    "C29": {"level": _E1 + "Each acknowledged write's own entry was applied on the answering node before the reply (event sequence "
                           "numbers); CAS replies equal the applied outcome; unique values make crossed responses visible.", "note": _N1},
    "C30": {"level": _E1 + "Raw client commands with their own oneshot and no client timeout: an answer must arrive within "
                           "general_raft_timeout + 2 ticks + 250 ms while the node stays up; violations are separated into "
                           "unresolved_past_deadline and dropped_without_response.", "note": _N1},
    "C31": {"level": _E1 + "Every node's leader-change watch is drained: terms never decrease per incarnation, one leader id per term "
                           "across nodes, every notified (leader, term) is in the leader ledger.", "note": _N1},
    "C32": {"level": _E1 + "After the last fault: heal, restart everything, quiet period max(10 x election_timeout_max, 3 x general "
                           "timeout, 8 s); then a leader exists, a fresh write commits (judged by the commit ledger) and every live voter "
                           "applied up to the commit index. Includes leaders isolated or crashed at the instant of their election "
                           "(scenario newleader) so that logs end in terms nobody else knows.", "note": _N1},
    "C33": {"level": _E1 + "Small snapshot thresholds so that snapshots and purges happen (thousands per batch), with lagging and "
                           "restarting peers. Safety oracle at the instant of every LogStore::purge call: cutoff <= highest committed "
                           "index (commit ledger) and <= the boundary of the snapshot the node holds. Progress oracle after the quiet "
                           "period: no live voter is stuck behind the leader's purge boundary (peer_stuck_behind_purge_boundary).",
            "note": _N1 + " MemSm snapshots; the File engine's in-memory snapshot metadata is not exercised here."},
    "C35": {"level": _E1 + "Multi-key reads with duplicate and never-written keys through EmbeddedClient and raw read commands: one "
                           "result per key, duplicates agree, missing keys absent.", "note": _N1 + " The gRPC client library's realignment (d-engine-client) is not executed."},
    "C36": {"level": "Seeded exploration: a generated sequence of AppendEntries requests is delivered to two identical real follower nodes "
                     "(full node wiring, real Raft loop), once in bursts so that Raft::merge_append_entries sees several queued requests, "
                     "once one at a time with quiescence in between. Compared: final log (index, term, payload), final commit index, "
                     "and per sender the kind of acknowledgement (success / conflict / higher term); a merged success must cover the "
                     "sender's own request. The burst partition, max_merge_entries and max_batch_size are the explored dimensions.",
            "note": "One response is fanned out to all merged senders by design, so exact equality of last_match and of the response's term "
                    "field is not demanded (DESIGN.md C36). Trusted base as for the cluster simulator."},
    "C37": {"level": _E1 + "Every command in the apply ledger equals (kind, key, value, expected, ttl) of the submitted operation carrying "
                           "that unique value.", "note": _N1},
}

NOT_CLAIMED = {
    "C34": "not applicable: RaftConfig::validate() is a pure function of numbers - no schedule, clock, fault or interleaving for a simulator to decide (DESIGN.md §12)",
}

"""Per-property check specifications (which scenarios, how many runs, which known-finding
enabling conditions are masked in the main batch). See DESIGN.md §7, §8."""

# enabling conditions of the open known findings (DESIGN.md §8, containment)
MASK_OPEN = ["snapshot_install", "batch_promote"]

COMPONENTS = {
    "real": [
        "d-engine-core: Raft loop, Follower/Candidate/Leader/Learner states, ElectionHandler, ReplicationHandler, "
        "BufferedRaftLog incl. its IO task, DefaultCommitHandler, StateMachineWorker, DefaultStateMachineHandler "
        "(apply, snapshot create/compress/load/install), DefaultPurgeExecutor, LogSizePolicy, ReadLease, WatchRegistry/Dispatcher",
        "d-engine-server: RaftMembership, Node<T> tonic service methods request_vote/join_cluster/discover_leader/"
        "update_cluster_conf called as Rust methods, EmbeddedClient/EmbeddedReadHandle, StandaloneReadHandle + read actor",
        "grpc_task_with_timeout_and_exponential_backoff (client-side retry/timeout of unary RPCs)",
    ],
    "stub_or_replica": [
        "SimTransport replaces GrpcTransport; stream_append_entries / install_snapshot / stream_snapshot server handlers are "
        "re-implemented line by line (tonic::Streaming cannot be built without h2)",
        "SimStorageEngine (page-cache/durable split) replaces File/RocksDB storage engines in cluster runs",
        "MemSm (ideal in-memory state machine, atomically persistent) behind the ObservedSm wrapper",
        "node wiring replicates NodeBuilder::build()/Node::run() (no sockets, no readiness probes, no OS threads)",
        "vendored tokio 1.52.3 with two patches: spawn_blocking runs inline on the simulator thread; task groups for crash",
    ],
}

COMPONENTS_BY_ENGINE = {
    "cluster": COMPONENTS,
    "logsim": {
        "real": ["d-engine-core BufferedRaftLog incl. its IO task (c18/c19)", "d-engine-server FileStorageEngine (FileLogStore, FileMetaStore) and "
                 "RocksDBStorageEngine on a real directory (c20/c21)"],
        "stub_or_replica": ["SimStorageEngine (page-cache/durable split) under BufferedRaftLog in c18/c19", "reference LogModel / StoreModel",
                            "vendored tokio (inline blocking), libc clock/getrandom seams"],
    },
    "mergesim": {
        "real": ["d-engine-core Raft loop incl. merge_append_entries and the inbound drain, FollowerState, ReplicationHandler::handle_append_entries, "
                 "BufferedRaftLog + IO task, DefaultCommitHandler, StateMachineWorker (two complete follower nodes wired as in the cluster simulator)"],
        "stub_or_replica": ["the leaders are the plan: requests are built from generated leader logs and pushed into the follower's event channel "
                            "as stream_append_entries does", "SimStorageEngine, MemSm, vendored tokio, libc seams"],
    },
    "snapsim": {
        "real": ["d-engine-core DefaultStateMachineHandler: create_snapshot, compress, load_snapshot_data (sender side); "
                 "apply_snapshot_stream_from_leader, process_snapshot_stream, SnapshotAssembler, finalize, decompress (receiver side), "
                 "on real directories in tmpfs"],
        "stub_or_replica": ["MemSm (ideal in-memory state machine with a snapshot.bin file format of its own) under the ObservedSm wrapper",
                            "the transport between the two handlers is an mpsc channel carrying the real SnapshotChunk messages (what "
                            "InstallSnapshotChunk hands to the follower)", "vendored tokio (inline blocking), libc seams"],
    },
    "scansim": {
        "real": ["d-engine-server FileStateMachine and RocksDBStateMachine on a real directory: apply_chunk and scan_prefix"],
        "stub_or_replica": ["the second thread is replaced by guarded schedule points (cfg d_engine_verif) inside apply_chunk and scan_prefix at which "
                            "the harness runs the other operation to completion on the simulator thread", "reference model of the key-value state per "
                            "applied index", "vendored tokio (inline blocking), libc seams"],
    },
    "smsim": {
        "real": ["d-engine-server FileStateMachine and RocksDBStateMachine (apply_chunk, WAL, checkpoint, recovery, get/get_multi/scan_prefix, "
                 "lease_background_cleanup, start/stop/Drop) on a real directory in /dev/shm", "d-engine-server TtlLease",
                 "real process kill: each lifetime is a child process ended by abort()"],
        "stub_or_replica": ["the node around the state machine (commit handler re-applying the suffix after restart) is replicated by the harness",
                            "wall clock and monotonic clock through the libc seam (virtual, advanced by the plan); vendored tokio inline blocking",
                            "reference key-value/TTL model (about 40 lines)"],
    },
}

ASSUMPTIONS_BY_ENGINE = {
    "cluster": [
        "one global virtual clock: per-node clock rate skew is not simulated",
        "tasks are serialised on one thread: interleavings happen at await points and seam yields only",
        "SimTransport replaces GrpcTransport (tonic/h2/TLS not executed); stream mode keeps per-stream FIFO order",
    ],
    "logsim": ["single caller task plus the IO task on one thread; interleavings at await points only",
               "File/RocksDB engines see graceful close or hook-captured directory images, not arbitrary power loss"],
    "mergesim": ["acknowledgements are compared by kind and by whether the reported match position covers the sender's own request: one "
                 "response is fanned out to all merged senders by design, so exact equality of last_match is not demanded (DESIGN.md C36)",
                 "request sequences are those a correct set of leaders can emit (per term one leader with one log); network duplication and "
                 "loss of requests are included, corruption is not"],
    "snapsim": ["one fault per stream; crash points inside the assembly/finalize steps are not injected here (engine-side install crashes: "
                "C16 engine batch, KF17)", "state machine = MemSm; the File/RocksDB apply_snapshot_from_file are exercised by the C16 engine batch"],
    "scansim": ["interleavings happen at the guarded points only (after the WAL append / the memory update of the File engine, before / after the "
                "RocksDB batch write, between iteration and revision read of the RocksDB scan), not between arbitrary instructions",
                "watch events after the scan are modelled from the reference state (the watch pipeline itself is C24's subject)"],
    "smsim": ["process-crash semantics: every completed write() survives the kill; power loss (lost page cache) is not simulated",
              "one applier at a time (as in the node: a single commit-handler task calls apply_chunk)",
              "TTL deadlines within 1 s of an observation are not judged"],
}

DETERMINISM_SCENARIOS = ["newleader", "reelect", "watch", "routing", "staletail", "general", "election", "lease", "durability", "lag", "snapshot", "membership", "deadline"]


# Scope mask (not a known finding): the properties quantify over crashes of a *minority* of voters
# (C05, C10) - with this mask the cluster simulator enforces that strictly and restarts the sole
# voter of a 1-voter cluster gracefully instead of crashing it (DESIGN.md §8.1, false alarm FA2).
# Only the C02 batches (vote/term persistence of any single node) run without it.
MASK_SCOPE = ["sole_voter_crash"]


def B(name, scenario, quick, thorough, masks=None, sole_voter_crash=False, engine=None):
    m = list(MASK_OPEN if masks is None else masks)
    b = {"name": name, "scenario": scenario, "quick": quick, "thorough": thorough,
         "masks": m + ([] if sole_voter_crash else MASK_SCOPE)}
    if engine:
        b["engine"] = engine  # this batch runs on another engine than the property's main one
        b["masks"] = []
    return b


PROPS = {
    "C01": {"batches": [B("election", "election", 140, 1400), B("general", "general", 100, 1000),
                        B("membership", "membership", 40, 400)]},
    "C02": {"batches": [B("election", "election", 120, 1200, sole_voter_crash=True),
                        B("durability", "durability", 120, 1200, sole_voter_crash=True),
                        B("general", "general", 40, 400, sole_voter_crash=True)]},
    "C03": {"batches": [B("membership", "membership", 160, 1600), B("election", "election", 60, 600),
                        B("general", "general", 40, 400)]},
    "C04": {"batches": [B("general", "general", 120, 1200), B("lag", "lag", 80, 800),
                        B("durability", "durability", 60, 600), B("snapshot", "snapshot", 40, 400, masks=["batch_promote"]),
                        B("reelect", "reelect", 120, 1200)]},
    "C05": {"batches": [B("durability", "durability", 140, 1400), B("election", "election", 80, 800),
                        B("general", "general", 60, 600), B("reelect", "reelect", 120, 1200), B("newleader", "newleader", 60, 600)]},
    "C06": {"batches": [B("general", "general", 120, 1200), B("durability", "durability", 80, 800),
                        B("lag", "lag", 40, 400), B("exposed_snapshot", "snapshot", 40, 400, masks=["batch_promote"])]},
    "C07": {"batches": [B("staletail", "staletail", 140, 1400), B("election", "election", 60, 600), B("lag", "lag", 60, 600),
                        B("general", "general", 40, 400), B("newleader", "newleader", 60, 600)]},
    "C08": {"batches": [B("lag", "lag", 180, 1800), B("general", "general", 100, 1000)]},
    "C09": {"batches": [B("general", "general", 100, 1000), B("election", "election", 80, 800),
                        B("membership", "membership", 80, 800), B("lag", "lag", 40, 400),
                        B("membership_promotions_exposed", "membership", 100, 1000, masks=["snapshot_install"])]},
    "C10": {"batches": [B("durability", "durability", 160, 1600), B("general", "general", 100, 1000),
                        B("election", "election", 40, 400)]},
    "C11": {"batches": [B("lease", "lease", 200, 2000), B("general", "general", 80, 800)]},
    "C12": {"batches": [B("lease", "lease", 200, 2000), B("general", "general", 80, 800)]},
    "C13": {"batches": [B("routing", "routing", 220, 2200), B("routing_exposed_snapshots", "routing", 60, 600, masks=["batch_promote"])]},
    "C14": {"batches": [B("general", "general", 140, 1400), B("election", "election", 100, 1000), B("deadline", "deadline", 40, 400)]},
    "C16": {"batches": [B("exposed_snapshot", "snapshot", 120, 1200, masks=["batch_promote"]),
                        B("general_exposed", "general", 60, 600, masks=["batch_promote"]),
                        B("engine_install_replay", "c16", 250, 2500, engine="smsim")]},
    "C17": {"engine": "snapsim", "batches": [B("snapshot_stream_faults", "stream", 1200, 12000, masks=[])],
            "rule": "one evaluation = one real snapshot (real create_snapshot + load_snapshot_data of a leader-side handler, 1-40 commands, "
                    "chunk size 16-200 bytes so that streams have several chunks) streamed into the real apply_snapshot_stream_from_leader of a "
                    "follower-side handler that holds its own state and sometimes an older snapshot, with one injected stream fault (drop, "
                    "duplicate, swap, corrupt data, corrupt checksum, leader id / term change mid-stream, missing metadata, early close, stall "
                    "beyond receive_chunk_timeout, wrong total, abort followed by a complete retry) or none; non-trivial = a fault was injected"},
    "C18": {"engine": "logsim", "batches": [B("buffered_log_crash", "c18", 1500, 15000, masks=[])],
            "rule": "one evaluation = one generated operation plan (append / conflict-aware append from forking histories / purge / reset / "
                    "flush / wait / crash+reopen) on the real BufferedRaftLog with its IO task over SimStorageEngine; distinct = distinct "
                    "trace hash; non-trivial = at least one crash with reopen"},
    "C19": {"engine": "logsim", "batches": [B("buffered_vs_model", "c19", 1500, 15000, masks=[])],
            "rule": "one evaluation = one generated operation plan on the real BufferedRaftLog (IO task running concurrently) compared "
                    "query by query with a plain reference log after every operation; distinct = distinct trace hash; non-trivial = more than 3 operations"},
    "C20": {"engine": "logsim", "batches": [B("inorder", "c20", 500, 5000, masks=[]), B("arbitrary_indexes_exposed", "c20x", 150, 1500, masks=[])],
            "rule": "one evaluation = one generated LogStore operation plan on the real File or RocksDB engine compared with a reference "
                    "store after every operation and after reopen; non-trivial = more than 3 operations"},
    "C21": {"engine": "logsim", "level": "fault_enumeration", "batches": [B("meta_crash_points", "c21", 40, 400, masks=[])],
            "rule": "one evaluation = 3 generated (old, new) hard-state pairs; for each, every guarded crash point inside "
                    "FileMetaStore::save_to_file is captured as a directory image (process-crash semantics) and, at points before the "
                    "code synced, every prefix of every file that changed (torn write); each image is reopened. Exhaustive per pair over "
                    "crash points x tear lengths; non-trivial = every run"},
    "C15": {"engine": "smsim", "batches": [B("crash_points", "c15", 300, 3000, masks=[]), B("mixed", "c22", 100, 1000, masks=[])],
            "rule": "one evaluation = one generated plan of 2-4 process lifetimes of one real File or RocksDB state machine: apply batches "
                    "(put / put-with-TTL / delete / CAS / noop), clock advances past the checkpoint interval, expiry cleanups; each lifetime is a "
                    "child process that is killed (abort, no destructors) after its last operation or at the n-th guarded crash point inside an "
                    "engine write (WAL append, memory update, checkpoint data/metadata/TTL file, WAL clear, RocksDB batch write; recovery "
                    "included), or stopped gracefully; after every restart the reported applied index, the contents and the effect of "
                    "re-applying the unreported suffix are compared with the reference model; non-trivial = at least one restart"},
    "C22": {"engine": "smsim", "batches": [B("semantics", "c22", 400, 4000, masks=[]), B("ttl_mix", "c23", 100, 1000, masks=[])],
            "rule": "one evaluation = one generated command plan (3 keys incl. a shared prefix, 5 values incl. the empty value, chunks of 1-6 "
                    "commands with several CAS on one key inside a chunk) on one real File or RocksDB state machine; after every chunk the "
                    "ApplyResult flags/indexes and get / get_multi (duplicate key) / scan_prefix are compared with the reference semantics, "
                    "which is chunk-independent; non-trivial = at least one chunk"},
    "C23": {"engine": "smsim", "batches": [B("ttl", "c23", 400, 4000, masks=[]), B("crash_points", "c15", 100, 1000, masks=[])],
            "rule": "one evaluation = one generated plan mixing put-with-TTL (1-4 s), plain put, CAS, delete, virtual wall-clock advances "
                    "(incl. while the process is down), expiry cleanup runs, graceful restarts and kills on one real File or RocksDB state "
                    "machine; at every cleanup keys due >= 1 s ago must be gone, keys due >= 1 s ahead and keys whose TTL was cancelled must "
                    "still hold their value; non-trivial = at least one restart"},
    "C24": {"batches": [B("watch", "watch", 260, 2600), B("general", "general", 60, 600)]},
    "C25": {"engine": "scansim", "batches": [B("scan_interleaved", "scan", 1500, 15000, masks=[])],
            "rule": "one evaluation = one generated plan on one real File or RocksDB state machine: 3-8 apply chunks over keys with shared "
                    "prefixes and 0xFF boundary bytes; per chunk optionally a prefix scan issued from inside apply_chunk at the n-th guarded "
                    "apply point, and after each chunk a prefix scan that is either quiescent or has the next chunk applied from inside it "
                    "(RocksDB: at the point between iteration and revision read); non-trivial = at least one interleaved scan"},
    "C26": {"batches": [B("exposed_membership", "membership", 160, 1600, masks=["snapshot_install"]),
                        B("general_exposed", "general", 80, 800, masks=["snapshot_install"])]},
    "C27": {"batches": [B("membership", "membership", 180, 1800), B("general", "general", 60, 600),
                        B("lease_with_learner", "leaselearner", 140, 1400)]},
    "C28": {"batches": [B("membership_restarts", "membership", 200, 2000), B("general", "general", 80, 800)]},
    "C29": {"batches": [B("general", "general", 140, 1400), B("election", "election", 80, 800), B("deadline", "deadline", 60, 600)]},
    "C30": {"batches": [B("deadline", "deadline", 160, 1600), B("election", "election", 80, 800), B("general", "general", 40, 400)]},
    "C31": {"batches": [B("election", "election", 160, 1600), B("general", "general", 80, 800), B("membership", "membership", 40, 400)]},
    "C32": {"batches": [B("general", "general", 120, 1200), B("election", "election", 60, 600), B("durability", "durability", 60, 600),
                        B("lag", "lag", 40, 400), B("newleader", "newleader", 100, 1000)]},
    "C33": {"batches": [B("snapshot_exposed", "snapshot", 200, 2000, masks=["batch_promote"]),
                        B("general_exposed", "general", 80, 800, masks=["batch_promote"])]},
    "C35": {"batches": [B("routing", "routing", 120, 1200), B("general", "general", 80, 800)]},
    "C36": {"engine": "mergesim", "batches": [B("merge_equiv", "merge", 700, 12000, masks=[])],
            "rule": "one evaluation = one generated sequence of AppendEntries requests (chains, heartbeats, overlapping resends, exact "
                    "duplicates, requests that skip ahead, back-offs, 1-3 successive leaders/terms, rising commit indexes) delivered to two "
                    "identical real Raft followers: in bursts (random burst partition; the whole burst is queued before the loop runs, so "
                    "merge_append_entries sees it) and one at a time with quiescence in between; max_merge_entries and max_batch_size drawn "
                    "per run; distinct = distinct (sequence, partition) hash; non-trivial = at least one adjacent pair in a burst satisfied "
                    "the merge rule and at least one request was acknowledged with success"},
    "C37": {"batches": [B("general", "general", 160, 1600), B("durability", "durability", 60, 600)],
            "assumptions": ["the schedule dimension adds nothing to this conservation check; it is evaluated as a side oracle of cluster runs"]},
}

#!/bin/bash
# run every claimed check (tier $1, default quick) and print a one-line summary each
tier=${1:-quick}
for p in $(python3 -c "import checkspec;print(' '.join(sorted(checkspec.PROPS)))"); do
  s=$(date +%s)
  out=$(./check $p --tier $tier 2>&1); rc=$?
  e=$(date +%s)
  echo "== $p rc=$rc $((e-s))s"
  echo "$out" | grep -E "VIOLATION|KNOWN-FINDING|HARNESS|kind=" | cut -c1-400
done

#!/bin/bash
# run every claimed check (tier $1, default quick) the way the acceptance probe does: evidence file removed
# first, then one summary line each with exit code, wall time and evidence validity
tier=${1:-quick}
for p in $(python3 -c "import checkspec;print(' '.join(sorted(checkspec.PROPS)))"); do
  rm -f evidence/$p.json
  s=$(date +%s)
  out=$(./check $p --tier $tier 2>&1); rc=$?
  e=$(date +%s)
  ev=$(python3-vt - "$p" <<'PY' 2>&1
import json, sys, jsonschema
p = sys.argv[1]
try:
    e = json.load(open(f"/verif/evidence/{p}.json"))
    jsonschema.validate(e, json.load(open("/root/.vp/EVIDENCE.schema.json")))
    c = e["coverage"]
    print(f"evidence ok evals={c['evaluations']} distinct_nontrivial={c['distinct_nontrivial']}")
except Exception as x:
    print("EVIDENCE-INVALID", str(x)[:200])
PY
)
  echo "== $p rc=$rc $((e-s))s $ev"
  echo "$out" | grep -E "VIOLATION|KNOWN-FINDING|HARNESS|kind=" | cut -c1-300
done

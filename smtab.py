import json,glob,collections,sys
d=sys.argv[1]
c=collections.Counter(); ex={}
he=0
for f in sorted(glob.glob(d+'/*.json')):
    r=json.load(open(f))
    if 'harness_error' in r: he+=1; print(f, r['harness_error'])
    for v in r['oracle']['violations']:
        w=v['witness']
        k=(v['property'],v['kind'],w.get('engine'),w.get('restart'), w.get('matches_full_state'), w.get('ttl_key'), w.get('model_resynced_earlier'), w.get('restarts_since_put'), w.get('last_write'), w.get('by'))
        c[k]+=1; ex.setdefault(k,(f,v))
for k,n in sorted(c.items(), key=str): print(n,k)
print('harness errors',he)
if len(sys.argv)>2:
  for k,(f,v) in sorted(ex.items(), key=str): print(k,f,json.dumps(v)[:900]); print()

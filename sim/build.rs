fn main() {
    // Export our libc overrides (clock_gettime/getrandom/getentropy) dynamically so that
    // dlsym(RTLD_DEFAULT, "getrandom") in the getrandom crate resolves to them.
    println!("cargo:rustc-link-arg-bins=-Wl,--export-dynamic");
}

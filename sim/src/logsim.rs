//! E2 `logsim`: one BufferedRaftLog / LogStore / MetaStore under operation plans
//! (DESIGN.md §7: C18, C19, C20, C21).

use std::collections::{BTreeMap, HashMap};
use std::sync::Arc;
use std::time::Duration;

use d_engine_core::{BufferedRaftLog, HardState, LogStore, MetaStore, PersistenceConfig, RaftLog, StorageEngine};
use d_engine_proto::common::{Entry, EntryPayload, LogId};
use d_engine_proto::server::election::VotedFor;
use d_engine_server::{FileStorageEngine, RocksDBStorageEngine};
use serde::{Deserialize, Serialize};
use serde_json::{Value, json};

use crate::node::MemT;
use crate::oracle::{Oracle, OracleRef};
use crate::rng::Rng;
use crate::store::{SimDisk, SimStorageEngine};

// ───────────────────────── plan ─────────────────────────

#[derive(Serialize, Deserialize, Clone, Debug)]
#[serde(tag = "op")]
pub enum LOp {
    /// leader-style append of `n` new entries of term `term` after the current last index
    Append { n: u64, term: u64 },
    /// follower-style request: entries `from..from+n` taken from history `hist`, prev = from-1
    Follow { hist: usize, from: u64, n: u64 },
    /// like Follow, but `from` = current last index + 1 - back (resolved at run time)
    FollowTail { hist: usize, back: u64, n: u64 },
    /// the prev(0,0) form with entries 1..=n of history `hist`
    FollowFromZero { hist: usize, n: u64 },
    Purge { upto: u64 },
    Reset,
    Flush,
    /// let virtual time pass so the IO task runs
    Wait { ms: u64 },
    /// crash (0 process crash, 1 power loss) and reopen; `choice` picks the torn prefix
    Crash { kind: u8, choice: u64 },
    // store-level operations (c20)
    SPersist { hist: usize, from: u64, n: u64 },
    STruncate { from: u64 },
    SReplace { from: u64, hist: usize, n: u64 },
    SPurge { upto: u64 },
    SReset,
    SFlush,
    SReopen,
    /// in-order usage (what BufferedRaftLog issues): positions relative to the current last index
    SPersistTail { hist: usize, n: u64 },
    SReplaceTail { back: u64, hist: usize, n: u64 },
    STruncateTail { back: u64 },
    SPurgeFront { n: u64 },
}

#[derive(Serialize, Deserialize, Clone, Debug)]
pub struct LogPlan {
    pub seed: u64,
    pub mode: String,
    /// candidate leader logs: term per index (index = position + 1); they share prefixes
    pub hists: Vec<Vec<u64>>,
    pub ops: Vec<LOp>,
    pub disk_latency: (u64, u64),
    pub idle_flush_ms: u64,
    pub engine: String,
}

fn gen_hists(r: &mut Rng, n: usize, len: u64) -> Vec<Vec<u64>> {
    // histories are legal Raft logs (non-decreasing terms) that fork from common prefixes
    let mut base: Vec<u64> = Vec::new();
    let mut t = 1;
    for _ in 0..len {
        if r.chance(1, 5) {
            t += 1;
        }
        base.push(t);
    }
    let mut out = vec![base.clone()];
    for _ in 1..n {
        let src = r.pick(&out).clone();
        let fork = r.range(0, len.saturating_sub(1)) as usize;
        let mut h: Vec<u64> = src[..fork].to_vec();
        let mut t = h.last().copied().unwrap_or(1).max(src.get(fork).copied().unwrap_or(1)) + r.range(1, 2);
        for _ in fork..len as usize {
            if r.chance(1, 6) {
                t += 1;
            }
            h.push(t);
        }
        out.push(h);
    }
    out
}

pub fn gen_plan(seed: u64, mode: &str) -> LogPlan {
    let mut r = Rng::new(seed ^ 0x10_65);
    let len = match mode {
        "c19" => 24,
        _ => 40,
    };
    let hists = gen_hists(&mut r, 4, len);
    let n_ops = r.range(4, if mode == "c19" { 40 } else { 30 });
    let mut ops = Vec::new();
    let engine = match mode {
        "c20" | "c20x" => (*r.pick(&["file", "rocksdb"])).to_string(),
        "c18" => (*r.pick(&["sim", "sim", "file"])).to_string(),
        _ => "sim".to_string(),
    };
    for _ in 0..n_ops {
        let roll = r.below(100);
        let op = if mode == "c20" {
            match roll {
                0..=44 => LOp::SPersistTail { hist: r.below(4) as usize, n: r.range(1, 6) },
                45..=56 => LOp::STruncateTail { back: r.range(0, 5) },
                57..=70 => LOp::SReplaceTail { back: r.range(0, 5), hist: r.below(4) as usize, n: r.range(0, 5) },
                71..=79 => LOp::SPurgeFront { n: r.range(1, 6) },
                80..=81 => LOp::SReset,
                82..=89 => LOp::SFlush,
                _ => LOp::SReopen,
            }
        } else if mode == "c20x" {
            match roll {
                0..=39 => LOp::SPersist { hist: r.below(4) as usize, from: r.range(1, len - 1), n: r.range(1, 6) },
                40..=52 => LOp::STruncate { from: r.range(1, len) },
                53..=67 => LOp::SReplace { from: r.range(1, len - 1), hist: r.below(4) as usize, n: r.range(0, 5) },
                68..=77 => LOp::SPurge { upto: r.range(1, len / 2) },
                78..=81 => LOp::SReset,
                82..=89 => LOp::SFlush,
                _ => LOp::SReopen,
            }
        } else {
            match roll {
                0..=9 => LOp::Append { n: r.range(1, 4), term: 0 },
                10..=49 => LOp::FollowTail { hist: if r.chance(2, 3) { 0 } else { r.below(4) as usize }, back: r.range(0, 7), n: r.range(0, 6) },
                50..=59 => LOp::Follow { hist: r.below(4) as usize, from: r.range(1, len - 1), n: r.range(0, 6) },
                60..=63 => LOp::FollowFromZero { hist: r.below(4) as usize, n: r.range(1, 5) },
                64..=73 => LOp::Purge { upto: r.range(1, len / 2) },
                74..=75 => LOp::Reset,
                76..=83 => LOp::Flush,
                84..=91 => LOp::Wait { ms: r.range(1, 80) },
                _ => {
                    if mode == "c18" {
                        LOp::Crash { kind: r.below(2) as u8, choice: r.next() }
                    } else {
                        LOp::Wait { ms: r.range(1, 30) }
                    }
                }
            }
        };
        ops.push(op);
    }
    if mode == "c18" {
        ops.push(LOp::Crash { kind: r.below(2) as u8, choice: r.next() });
    }
    LogPlan {
        seed,
        mode: mode.to_string(),
        hists,
        ops,
        disk_latency: *r.pick(&[(0u64, 0u64), (0, 2), (1, 12), (5, 40)]),
        idle_flush_ms: *r.pick(&[5u64, 50, 1000]),
        engine,
    }
}

// ───────────────────────── reference model ─────────────────────────

#[derive(Clone, Default, Debug)]
pub struct LogModel {
    pub entries: BTreeMap<u64, (u64, u64)>, // index -> (term, payload id)
    pub purge: Option<(u64, u64)>,          // (index, term)
}

impl LogModel {
    fn first(&self) -> u64 {
        self.entries.keys().next().copied().unwrap_or(0)
    }
    fn last(&self) -> u64 {
        self.entries.keys().next_back().copied().unwrap_or(0)
    }
    fn term_at(&self, i: u64) -> Option<u64> {
        if let Some((t, _)) = self.entries.get(&i) {
            return Some(*t);
        }
        match self.purge {
            Some((pi, pt)) if pi == i && pi > 0 => Some(pt),
            _ => None,
        }
    }
    fn last_log_id(&self) -> Option<(u64, u64)> {
        let l = self.last();
        if l > 0 {
            return self.entries.get(&l).map(|(t, _)| (l, *t));
        }
        self.purge.filter(|p| p.0 > 0)
    }
    fn reset(&mut self) {
        self.entries.clear();
        self.purge = None;
    }
    fn follow(&mut self, prev_i: u64, prev_t: u64, es: &[(u64, u64, u64)]) -> Option<(u64, u64)> {
        if prev_i == 0 && prev_t == 0 {
            self.reset();
            for (i, t, p) in es {
                self.entries.insert(*i, (*t, *p));
            }
            return es.last().map(|e| (e.0, e.1));
        }
        if self.term_at(prev_i) != Some(prev_t) {
            return self.last_log_id();
        }
        for (k, (i, t, p)) in es.iter().enumerate() {
            match self.entries.get(i) {
                Some((et, _)) if et == t => continue,
                Some(_) => {
                    self.entries.split_off(i);
                    for (i2, t2, p2) in &es[k..] {
                        self.entries.insert(*i2, (*t2, *p2));
                    }
                    break;
                }
                None => {
                    self.entries.insert(*i, (*t, *p));
                }
            }
        }
        es.last().map(|e| (e.0, e.1))
    }
    fn purge_to(&mut self, idx: u64, term: u64) {
        self.entries = self.entries.split_off(&(idx + 1));
        self.purge = Some((idx, term));
    }
}

fn mk_entry(index: u64, term: u64, pid: u64) -> Entry {
    Entry {
        index,
        term,
        payload: Some(EntryPayload {
            payload: Some(d_engine_proto::common::entry_payload::Payload::Command(bytes::Bytes::from(format!("p{pid}")))),
        }),
    }
}
fn pid_of(e: &Entry) -> u64 {
    match e.payload.as_ref().and_then(|p| p.payload.as_ref()) {
        Some(d_engine_proto::common::entry_payload::Payload::Command(b)) => {
            String::from_utf8_lossy(b).trim_start_matches('p').parse().unwrap_or(0)
        }
        _ => 0,
    }
}
/// payload id that makes entries of different histories distinguishable iff their (index, term) differ
fn hist_pid(term: u64, index: u64) -> u64 {
    term * 1000 + index
}

// ───────────────────────── c19 / c18 over BufferedRaftLog ─────────────────────────

/// `stale`: a purge boundary the log was given before a later reset()/prev(0,0) request. The plain log forgets it;
/// `BufferedRaftLog` keeps `last_purged_index/term` (known finding KF14). A disagreement is attributed to KF14
/// only if the answer obtained is exactly what a plain log that had kept that boundary would give.
fn compare(o: &OracleRef, step: usize, opname: &str, log: &BufferedRaftLog<MemT>, m: &LogModel, hi: u64, terms: u64, stale: Option<(u64, u64)>, tainted: bool) {
    // the queried index range must cover both logs entirely: leader-style appends can grow the
    // log past the length of the generated histories
    let hi = hi.max(m.last()).max(log.last_entry_id());
    let dev = LogModel { entries: m.entries.clone(), purge: m.purge.or(stale) };
    let v2 = |q: &str, arg: u64, model: String, got: String, deviant: String| {
        if model != got {
            o.lock().unwrap().violate(
                "C19",
                "query_disagrees",
                json!({"op_seq_len": step + 1, "after_op": opname, "query": q, "arg": arg, "model": model, "got": got,
                       "reset_after_purge_earlier": tainted || (stale.is_some() && got == deviant)}),
            );
        }
    };
    let v = |q: &str, arg: u64, model: String, got: String| v2(q, arg, model.clone(), got, model);
    v("first_entry_id", 0, format!("{}", m.first()), format!("{}", log.first_entry_id()));
    v("last_entry_id", 0, format!("{}", m.last()), format!("{}", log.last_entry_id()));
    v("is_empty", 0, format!("{}", m.entries.is_empty()), format!("{}", RaftLog::is_empty(log)));
    v2(
        "last_log_id",
        0,
        format!("{:?}", m.last_log_id()),
        format!("{:?}", log.last_log_id().map(|l| (l.index, l.term))),
        format!("{:?}", dev.last_log_id()),
    );
    for i in 0..=hi + 1 {
        v2("entry_term", i, format!("{:?}", m.term_at(i)), format!("{:?}", log.entry_term(i)), format!("{:?}", dev.term_at(i)));
    }
    let mut tlist: Vec<u64> = (0..=terms + 1).collect();
    tlist.extend(m.entries.values().map(|v| v.0));
    tlist.sort();
    tlist.dedup();
    for t in tlist {
        let first = m.entries.iter().find(|(_, (et, _))| *et == t).map(|(i, _)| *i);
        let last = m.entries.iter().rev().find(|(_, (et, _))| *et == t).map(|(i, _)| *i);
        v("first_index_for_term", t, format!("{first:?}"), format!("{:?}", log.first_index_for_term(t)));
        v("last_index_for_term", t, format!("{last:?}"), format!("{:?}", log.last_index_for_term(t)));
    }
    let got: Vec<(u64, u64, u64)> =
        log.get_entries_range(0..=hi + 2).unwrap_or_default().iter().map(|e| (e.index, e.term, pid_of(e))).collect();
    let want: Vec<(u64, u64, u64)> = m.entries.iter().map(|(i, (t, p))| (*i, *t, *p)).collect();
    v("get_entries_range", 0, format!("{want:?}"), format!("{got:?}"));
    // calculate_majority_matched_index for a few peer vectors
    let last = m.last();
    for (k, peers) in [vec![0, 0], vec![last, 0], vec![last.saturating_sub(1), last.saturating_sub(1)], vec![last, last, 0, 0]].iter().enumerate() {
        for term in [m.last_log_id().map(|l| l.1).unwrap_or(1), 1] {
            let commit = m.first().saturating_sub(1);
            let mut all = peers.clone();
            all.push(last);
            all.sort_unstable_by(|a, b| b.cmp(a));
            let maj = all[all.len() / 2];
            let want = if maj >= commit && m.entries.get(&maj).is_some_and(|(t, _)| *t == term) { Some(maj) } else { None };
            v(
                "calculate_majority_matched_index",
                k as u64 * 100 + term,
                format!("{want:?}"),
                format!("{:?}", log.calculate_majority_matched_index(term, commit, peers.clone())),
            );
        }
    }
}

struct Opened {
    log: Arc<BufferedRaftLog<MemT>>,
    io: tokio::task::JoinHandle<()>,
    group: u64,
}

async fn open_sim_log(disk: &crate::store::DiskRef, idle_flush_ms: u64, group: u64) -> Opened {
    let disk = disk.clone();
    let h = tokio::verif::with_group(group, || {
        tokio::spawn(async move {
            let se = SimStorageEngine::open(&disk);
            let cfg = PersistenceConfig {
                flush_policy: d_engine_core::FlushPolicy::Batch { idle_flush_interval_ms: idle_flush_ms },
                ..Default::default()
            };
            let (log, rx) = BufferedRaftLog::<MemT>::new(1, cfg, se);
            log.start_on_current_runtime(rx, None)
        })
    });
    let (log, io) = h.await.unwrap();
    Opened { log, io, group }
}

/// Ledger of what the log reported as durable (C18).
#[derive(Default)]
struct DurableLedger {
    /// index -> (term, pid) reported durable and not since replaced/purged by a *completed* operation
    must_have: BTreeMap<u64, (u64, u64)>,
    /// (index, term) pairs that a completed truncation replaced: must not come back
    replaced: Vec<(u64, u64, u64)>,
}

async fn run_buffered(plan: &LogPlan, o: &OracleRef) -> Value {
    let disk = SimDisk::new(1, plan.seed);
    disk.lock().unwrap().faults.latency_ms = plan.disk_latency;
    let mut inc = 1u64;
    disk.lock().unwrap().live_incarnation = inc;
    let mut group = 1000u64;
    let mut opened = open_sim_log(&disk, plan.idle_flush_ms, group).await;
    let mut model = LogModel::default();
    let mut ledger = DurableLedger::default();
    let is18 = plan.mode == "c18";
    let hi = plan.hists[0].len() as u64 + 8;
    let max_term = plan.hists.iter().flat_map(|h| h.iter()).copied().max().unwrap_or(1) + 2;
    let mut crashes = 0u64;
    let mut fresh_term = 100u64;
    let mut stale_boundary: Option<(u64, u64)> = None;
    // the log's *contents* went down the KF14 path (a request was accepted / an index allocated relative to the stale
    // boundary): from here on the plain log is no reference any more, every later disagreement is a consequence
    let mut tainted = false;
    let mut replace_with_backlog = false;
    let mut durable_at_open = 0u64;
    let mut flushed_this_inc = false;
    let mut conflicts = 0u64;
    let mut trunc_below_durable = 0u64;
    for (step, op) in plan.ops.iter().enumerate() {
        let log = opened.log.clone();
        let name = format!("{op:?}");
        let resolved;
        let op = if let LOp::FollowTail { hist, back, n } = op {
            let last = if model.last() > 0 { model.last() } else { model.purge.map(|p| p.0).unwrap_or(0) };
            let from = (last + 1).saturating_sub(*back);
            resolved = if from <= 1 { LOp::FollowFromZero { hist: *hist, n: (*n).max(1) } } else { LOp::Follow { hist: *hist, from, n: *n } };
            &resolved
        } else {
            op
        };
        match op {
            LOp::Append { n, .. } => {
                // a leader appending in a fresh term of its own: (index, term) never collides
                // with an entry of one of the histories
                fresh_term += 1;
                let term = fresh_term;
                let start = if model.last() > 0 { model.last() + 1 } else { model.purge.map(|p| p.0).unwrap_or(0) + 1 };
                // as the leader does (ReplicationHandler::generate_new_entries): indexes come from the
                // log's own allocator; the plain reference log appends right after its last entry
                // (c19 only: in c18 plans a purge may remove the whole log before a crash, which the node's
                // purge executor never does - retained_log_entries >= 1 - and the allocator then restarts at 1)
                let real_start = if is18 { start } else { *log.pre_allocate_id_range(*n).start() };
                let mut start = start;
                if real_start != start {
                    o.lock().unwrap().probe("allocator_disagrees_with_plain_log");
                    let dev_start = if model.last() > 0 { model.last() + 1 } else { model.purge.or(stale_boundary).map(|p| p.0).unwrap_or(0) + 1 };
                    let by_stale = stale_boundary.is_some() && real_start == dev_start;
                    if !is18 {
                        o.lock().unwrap().violate(
                            "C19",
                            "query_disagrees",
                            json!({"op_seq_len": step + 1, "after_op": name, "query": "pre_allocate_id_range (leader append position)", "arg": n,
                                   "model": start, "got": real_start, "reset_after_purge_earlier": by_stale || tainted}),
                        );
                    }
                    if by_stale {
                        start = real_start;
                        tainted = true;
                        o.lock().unwrap().probe("c19_run_tainted_by_stale_boundary");
                    }
                }
                for k in 0..*n {
                    model.entries.insert(start + k, (term, hist_pid(term, start + k) + 500_000));
                }
                let es: Vec<Entry> = (0..*n).map(|k| mk_entry(real_start + k, term, hist_pid(term, start + k) + 500_000)).collect();
                let _ = log.append_entries(es).await;
            }
            LOp::Follow { hist, from, n } => {
                let h = &plan.hists[*hist];
                let from = (*from).min(h.len() as u64);
                let prev_i = from - 1;
                let prev_t = if prev_i == 0 { 0 } else { h[prev_i as usize - 1] };
                if prev_i == 0 {
                    continue; // the (0,0) form is a separate operation
                }
                if is18 && stale_boundary.is_some_and(|p| p.0 == prev_i) && model.term_at(prev_i).is_none() {
                    // containment of known finding KF14 (C19's subject): a request whose prev is the purge boundary the
                    // log should have forgotten at reset() would be accepted and leave entries above a hole; C18 does not
                    // generate this enabling condition
                    o.lock().unwrap().probe("c18_masked_request_at_stale_purge_boundary");
                    continue;
                }
                let es: Vec<(u64, u64, u64)> = (from..(from + n).min(h.len() as u64 + 1))
                    .map(|i| (i, h[i as usize - 1], hist_pid(h[i as usize - 1], i)))
                    .collect();
                let before_durable = log.durable_index();
                let before = model.clone();
                let mut dev = LogModel { entries: model.entries.clone(), purge: model.purge.or(stale_boundary) };
                let want_dev = dev.follow(prev_i, prev_t, &es);
                let want = model.follow(prev_i, prev_t, &es);
                if before.entries.iter().any(|(i, v)| model.entries.get(i).is_some_and(|nv| nv != v) || (!model.entries.contains_key(i) && *i > prev_i)) {
                    conflicts += 1;
                    {
                        // entries below the truncation point that are still only in memory
                        let cut0 = before.entries.iter().find(|(i, v)| model.entries.get(i) != Some(v)).map(|(i, _)| *i).unwrap_or(0);
                        let dk = disk.lock().unwrap();
                        let missing_below = before.entries.keys().any(|i| *i < cut0 && !dk.cache.entries.contains_key(i));
                        if missing_below {
                            replace_with_backlog = true;
                        }
                    }
                    let cut = before.entries.iter().find(|(i, v)| model.entries.get(i) != Some(v)).map(|(i, _)| *i).unwrap_or(0);
                    if cut > 0 && cut <= before_durable {
                        trunc_below_durable += 1;
                    }
                    for (i, (t, p)) in before.entries.iter() {
                        if model.entries.get(i) != Some(&(*t, *p)) {
                            ledger.must_have.remove(i);
                            ledger.replaced.push((*i, *t, *p));
                        }
                    }
                }
                let entries: Vec<Entry> = es.iter().map(|(i, t, p)| mk_entry(*i, *t, *p)).collect();
                let got = log.filter_out_conflicts_and_append(prev_i, prev_t, entries).await;
                if !is18 {
                    let got_s = format!("{:?}", got.as_ref().ok().map(|g| g.map(|l| (l.index, l.term))));
                    let want_s = format!("{:?}", Some(want));
                    if got_s != want_s {
                        let by_stale = stale_boundary.is_some() && got_s == format!("{:?}", Some(want_dev));
                        o.lock().unwrap().violate(
                            "C19",
                            "query_disagrees",
                            json!({"op_seq_len": step + 1, "after_op": name, "query": "filter_out_conflicts_and_append result", "arg": prev_i, "model": want_s, "got": got_s,
                                   "reset_after_purge_earlier": by_stale || tainted}),
                        );
                        if by_stale {
                            // the log took the path a plain log with the stale boundary would take: follow it
                            model.entries = dev.entries.clone();
                            tainted = true;
                            o.lock().unwrap().probe("c19_run_tainted_by_stale_boundary");
                        }
                    } else if stale_boundary.is_some() && dev.entries != model.entries && format!("{:?}", Some(want_dev)) == want_s {
                        // same answer on both paths but different contents: decide by what the log holds now
                        let got_entries: Vec<(u64, u64)> = log.get_entries_range(0..=model.last().max(dev.last()) + 2).unwrap_or_default().iter().map(|e| (e.index, e.term)).collect();
                        let dev_entries: Vec<(u64, u64)> = dev.entries.iter().map(|(i, (t, _))| (*i, *t)).collect();
                        let strict_entries: Vec<(u64, u64)> = model.entries.iter().map(|(i, (t, _))| (*i, *t)).collect();
                        if got_entries == dev_entries && got_entries != strict_entries {
                            o.lock().unwrap().violate(
                                "C19",
                                "query_disagrees",
                                json!({"op_seq_len": step + 1, "after_op": name, "query": "filter_out_conflicts_and_append effect", "arg": prev_i,
                                       "model": format!("{strict_entries:?}"), "got": format!("{got_entries:?}"), "reset_after_purge_earlier": true}),
                            );
                            model.entries = dev.entries.clone();
                            tainted = true;
                            o.lock().unwrap().probe("c19_run_tainted_by_stale_boundary");
                        }
                    }
                }
            }
            LOp::FollowFromZero { hist, n } => {
                if model.purge.is_some() {
                    stale_boundary = model.purge;
                }
                let h = &plan.hists[*hist];
                let es: Vec<(u64, u64, u64)> = (1..=(*n).min(h.len() as u64)).map(|i| (i, h[i as usize - 1], hist_pid(h[i as usize - 1], i))).collect();
                for (i, (t, p)) in model.entries.clone().iter() {
                    ledger.must_have.remove(i);
                    ledger.replaced.push((*i, *t, *p));
                }
                model.follow(0, 0, &es);
                let entries: Vec<Entry> = es.iter().map(|(i, t, p)| mk_entry(*i, *t, *p)).collect();
                let _ = log.filter_out_conflicts_and_append(0, 0, entries).await;
            }
            LOp::Purge { upto } => {
                let upto = (*upto).min(model.last());
                if upto == 0 || upto < model.first() {
                    continue;
                }
                let term = model.term_at(upto).unwrap_or(0);
                model.purge_to(upto, term);
                if stale_boundary.is_some_and(|p| upto >= p.0) {
                    stale_boundary = None; // the log's remembered boundary has been overwritten by a newer one
                }
                ledger.must_have = ledger.must_have.split_off(&(upto + 1));
                let _ = log.purge_logs_up_to(LogId { index: upto, term }).await;
            }
            LOp::Reset => {
                if model.purge.is_some() {
                    stale_boundary = model.purge;
                }
                for (i, (t, p)) in model.entries.clone().iter() {
                    ledger.must_have.remove(i);
                    ledger.replaced.push((*i, *t, *p));
                }
                model.reset();
                let _ = log.reset().await;
            }
            LOp::Flush => {
                let fl = log.flush().await.is_ok();
                if fl {
                    flushed_this_inc = true;
                }
                if fl && is18 {
                    // everything in the log at this instant has been reported durable
                    for (i, v) in model.entries.iter() {
                        ledger.must_have.insert(*i, *v);
                    }
                    ledger.replaced.retain(|(i, t, p)| model.entries.get(i) != Some(&(*t, *p)));
                }
            }
            LOp::Wait { ms } => {
                tokio::time::sleep(Duration::from_millis(*ms)).await;
            }
            LOp::Crash { kind, choice } => {
                if !is18 {
                    continue;
                }
                crashes += 1;
                // what durable_index() reports right before the crash
                // durable_index() right after a reopen only repeats what was found on disk; it is a
                // durability report only once it has advanced (an fsync happened) in this incarnation
                let d_raw = log.durable_index();
                let d = if d_raw != durable_at_open || flushed_this_inc { d_raw } else { 0 };
                if std::env::var_os("LOGSIM_DEBUG").is_some() {
                    let dk = disk.lock().unwrap();
                    eprintln!("DEBUG crash step={step} durable_index={d} last={} first={} disk_cache={:?} disk_durable={:?} unsynced={}", log.last_entry_id(), log.first_entry_id(), dk.cache.entries.keys().collect::<Vec<_>>(), dk.durable.entries.keys().collect::<Vec<_>>(), dk.unsynced.len());
                }
                for (i, v) in model.entries.iter() {
                    if *i <= d {
                        ledger.must_have.insert(*i, *v);
                    }
                }
                {
                    let mut dk = disk.lock().unwrap();
                    if *kind == 1 {
                        dk.power_loss(*choice);
                    } else {
                        dk.process_crash();
                    }
                }
                tokio::verif::kill_group(opened.group);
                drop(log);
                inc += 1;
                disk.lock().unwrap().live_incarnation = inc;
                group += 1;
                opened = open_sim_log(&disk, plan.idle_flush_ms, group).await;
                let log = opened.log.clone();
                durable_at_open = log.durable_index();
                flushed_this_inc = false;
                // ── recovery checks ──
                let first = log.first_entry_id();
                let last = log.last_entry_id();
                let got = if last > 0 { log.get_entries_range(first..=last).unwrap_or_default() } else { vec![] };
                let mut expect = first;
                for e in &got {
                    if e.index != expect {
                        o.lock().unwrap().violate("C18", "recovered_gap", json!({"store": "sim", "missing": expect, "next_present": e.index, "crash_kind": kind, "step": step, "conflict_replace_with_unpersisted_backlog": replace_with_backlog}));
                        break;
                    }
                    expect += 1;
                }
                let gm: BTreeMap<u64, (u64, u64)> = got.iter().map(|e| (e.index, (e.term, pid_of(e)))).collect();
                for (i, v) in ledger.must_have.iter() {
                    match gm.get(i) {
                        None => {
                            o.lock().unwrap().violate("C18", "durable_entry_missing", json!({"store": "sim", "index": i, "crash_kind": kind, "step": step, "recovered_last": last, "conflict_replace_with_unpersisted_backlog": replace_with_backlog}));
                            break;
                        }
                        Some(g) if g != v => {
                            o.lock().unwrap().violate("C18", "durable_entry_differs", json!({"store": "sim", "index": i, "crash_kind": kind, "step": step, "conflict_replace_with_unpersisted_backlog": replace_with_backlog}));
                            break;
                        }
                        _ => {}
                    }
                }
                for (i, t, p) in ledger.replaced.iter() {
                    if gm.get(i) == Some(&(*t, *p)) && model.entries.get(i) != Some(&(*t, *p)) {
                        // only a violation if the replacement itself had been reported durable
                        if ledger.must_have.contains_key(i) {
                            o.lock().unwrap().violate("C18", "replaced_entry_resurrected", json!({"store": "sim", "index": i, "term": t, "crash_kind": kind, "step": step}));
                            break;
                        }
                    }
                }
                // continue from what was recovered
                model.entries = gm;
                // adopt exactly what was recovered, including the purge boundary (or its loss)
                model.purge = if last == 0 {
                    log.last_log_id().map(|l| (l.index, l.term))
                } else {
                    let b = first.saturating_sub(1);
                    if b > 0 { log.entry_term(b).map(|t| (b, t)) } else { None }
                };
                ledger = DurableLedger::default();
            }
            _ => {}
        }
        if std::env::var_os("LOGSIM_DEBUG").is_some() {
            let dk = disk.lock().unwrap();
            eprintln!("DEBUG after step={step} {name} t={} durable_index={} last={} first={} cache={:?}", crate::seams::vnow_ms(), opened.log.durable_index(), opened.log.last_entry_id(), opened.log.first_entry_id(), dk.cache.entries.iter().map(|(i,e)|(*i,e.term)).collect::<Vec<_>>());
        }
        o.lock().unwrap().trace("lop", step as u64, opened.log.last_entry_id(), opened.log.durable_index());
        if !is18 {
            compare(o, step, &name, &opened.log, &model, hi, max_term, stale_boundary, tainted);
            if stale_boundary.is_some() && !tainted {
                o.lock().unwrap().probe("c19_compared_exactly_with_stale_boundary");
            }
        }
    }
    let _ = &opened.io;
    json!({"crashes": crashes, "conflicts": conflicts, "truncate_below_durable": trunc_below_durable})
}

// ───────────────────────── c20: LogStore contract on real engines ─────────────────────────

#[derive(Default, Clone)]
struct StoreModel {
    entries: BTreeMap<u64, (u64, u64)>,
    purge: Option<(u64, u64)>,
}

enum AnyStore {
    File(Arc<FileStorageEngine>),
    Rocks(Arc<RocksDBStorageEngine>),
}
impl AnyStore {
    fn open(engine: &str, dir: &std::path::Path) -> AnyStore {
        match engine {
            "rocksdb" => AnyStore::Rocks(Arc::new(RocksDBStorageEngine::new(dir.join("rocks")).expect("open rocksdb"))),
            _ => AnyStore::File(Arc::new(FileStorageEngine::new(dir.join("file")).expect("open file engine"))),
        }
    }
}
macro_rules! with_log {
    ($s:expr, $l:ident, $body:expr) => {
        match $s {
            AnyStore::File(e) => {
                let $l = e.log_store();
                $body
            }
            AnyStore::Rocks(e) => {
                let $l = e.log_store();
                $body
            }
        }
    };
}

async fn run_store(plan: &LogPlan, o: &OracleRef, root: &std::path::Path) -> Value {
    let dir = root.join("c20");
    let _ = std::fs::create_dir_all(&dir);
    let mut store = AnyStore::open(&plan.engine, &dir);
    let mut m = StoreModel::default();
    let hi = plan.hists[0].len() as u64 + 8;
    let mut reopens = 0;
    for (step, op) in plan.ops.iter().enumerate() {
        let name = format!("{op:?}");
        let hist_entries = |hist: usize, from: u64, n: u64| -> Vec<(u64, u64, u64)> {
            let h = &plan.hists[hist];
            (from..(from + n).min(h.len() as u64 + 1)).map(|i| (i, h[i as usize - 1], hist_pid(h[i as usize - 1], i))).collect()
        };
        let mut phase = "live";
        let last_now = m.entries.keys().next_back().copied().unwrap_or(m.purge.map(|p| p.0).unwrap_or(0));
        let first_now = m.entries.keys().next().copied().unwrap_or(0);
        let resolved = match op {
            LOp::SPersistTail { hist, n } => Some(LOp::SPersist { hist: *hist, from: last_now + 1, n: *n }),
            LOp::SReplaceTail { back, hist, n } => Some(LOp::SReplace { from: (last_now + 1).saturating_sub(*back).max(first_now.max(1)), hist: *hist, n: *n }),
            LOp::STruncateTail { back } => Some(LOp::STruncate { from: (last_now + 1).saturating_sub(*back).max(first_now.max(1)) }),
            LOp::SPurgeFront { n } => {
                if first_now == 0 { None } else { Some(LOp::SPurge { upto: (first_now + n - 1).min(last_now) }) }
            }
            other => Some(other.clone()),
        };
        let Some(op) = resolved else { continue };
        let op = &op;
        match op {
            LOp::SPersist { hist, from, n } => {
                let es = hist_entries(*hist, *from, *n);
                for (i, t, p) in &es {
                    m.entries.insert(*i, (*t, *p));
                }
                let v: Vec<Entry> = es.iter().map(|(i, t, p)| mk_entry(*i, *t, *p)).collect();
                with_log!(&store, l, { let _ = l.persist_entries(v).await; });
            }
            LOp::STruncate { from } => {
                m.entries.split_off(from);
                with_log!(&store, l, { let _ = l.truncate(*from).await; });
            }
            LOp::SReplace { from, hist, n } => {
                let es = hist_entries(*hist, *from, *n);
                m.entries.split_off(from);
                for (i, t, p) in &es {
                    m.entries.insert(*i, (*t, *p));
                }
                let v: Vec<Entry> = es.iter().map(|(i, t, p)| mk_entry(*i, *t, *p)).collect();
                with_log!(&store, l, { let _ = l.replace_range(*from, v).await; });
            }
            LOp::SPurge { upto } => {
                let term = m.entries.get(upto).map(|e| e.0).unwrap_or(1);
                m.entries = m.entries.split_off(&(upto + 1));
                m.purge = Some((*upto, term));
                with_log!(&store, l, { let _ = l.purge(LogId { index: *upto, term }).await; });
            }
            LOp::SReset => {
                m.entries.clear();
                with_log!(&store, l, { let _ = l.reset().await; });
            }
            LOp::SFlush => {
                with_log!(&store, l, { let _ = l.flush(); });
            }
            LOp::SReopen => {
                reopens += 1;
                with_log!(&store, l, { let _ = l.flush(); });
                drop(store);
                tokio::time::sleep(Duration::from_millis(5)).await;
                store = AnyStore::open(&plan.engine, &dir);
                phase = "reopened";
            }
            _ => continue,
        }
        o.lock().unwrap().trace("sop", step as u64, m.entries.len() as u64, 0);
        // compare
        let (got, last_index, boundary) = with_log!(&store, l, {
            let got: Vec<(u64, u64, u64)> = l.get_entries(1..=hi + 2).unwrap_or_default().iter().map(|e| (e.index, e.term, pid_of(e))).collect();
            (got, l.last_index(), l.load_purge_boundary().ok().flatten().map(|b| (b.index, b.term)))
        });
        let want: Vec<(u64, u64, u64)> = m.entries.iter().map(|(i, (t, p))| (*i, *t, *p)).collect();
        let mut bad = |q: &str, model: String, gotv: String| {
            o.lock().unwrap().violate(
                "C20",
                "store_disagrees",
                json!({"engine": plan.engine, "query": q, "model": model, "got": gotv, "phase": phase, "step": step, "after_op": name,
                       "arbitrary_indexes": plan.mode == "c20x"}),
            );
        };
        if got != want {
            bad("get_entries", format!("{want:?}"), format!("{got:?}"));
        }
        let want_last = m.entries.keys().next_back().copied().unwrap_or(0);
        // an empty store may report 0 or the index just below where the log continues
        let empty_ok = m.entries.is_empty() && last_index <= last_now;
        if last_index != want_last && !empty_ok {
            bad("last_index", format!("{want_last}"), format!("{last_index}"));
        }
        if boundary != m.purge {
            bad("load_purge_boundary", format!("{:?}", m.purge), format!("{boundary:?}"));
        }
    }
    json!({"reopens": reopens, "engine": plan.engine})
}

// ───────────────────────── c21: hard state save crash points (File meta store) ─────────────────────────

fn hs(term: u64, vote: Option<(u32, u64)>) -> HardState {
    HardState {
        current_term: term,
        voted_for: vote.map(|(id, t)| VotedFor { voted_for_id: id, voted_for_term: t, committed: false }),
    }
}

fn copy_dir(src: &std::path::Path, dst: &std::path::Path) {
    let _ = std::fs::create_dir_all(dst);
    if let Ok(rd) = std::fs::read_dir(src) {
        for e in rd.flatten() {
            let p = e.path();
            let d = dst.join(e.file_name());
            if p.is_dir() {
                copy_dir(&p, &d);
            } else {
                let _ = std::fs::copy(&p, &d);
            }
        }
    }
}

/// Crash images of the File meta store taken at the guarded crash points inside
/// `FileMetaStore::save_to_file` while it saves `new` over `old` (process-crash semantics:
/// the image exactly as the code left it), plus, for every file that differs from the
/// image before the save, every prefix of it (power loss during an unsynced write).
/// Each image is reopened with a fresh engine: it must load `old` or `new`.
async fn run_meta(plan: &LogPlan, o: &OracleRef, root: &std::path::Path) -> Value {
    use std::cell::RefCell;
    use std::rc::Rc;
    let mut r = Rng::new(plan.seed ^ 0x21);
    let dir = root.join("c21");
    let mut images = 0u64;
    let mut points_seen: std::collections::BTreeSet<String> = Default::default();
    for pair in 0..3u64 {
        let d = dir.join(format!("p{pair}"));
        let _ = std::fs::create_dir_all(&d);
        let sh = r.range(1, 40);
        let old = hs(r.range(1, 1u64 << sh), if r.chance(1, 2) { Some((r.range(1, 9) as u32, r.range(1, 1000))) } else { None });
        let new = hs(old.current_term + r.range(0, 3), Some((r.range(1, 9) as u32, old.current_term + 1)));
        // the run trace identifies the explored case: the two hard states, every crash image and
        // what each image decoded to
        let vf = |h: &HardState| h.voted_for.as_ref().map(|v| ((v.voted_for_id as u64) << 32) ^ v.voted_for_term).unwrap_or(u64::MAX);
        o.lock().unwrap().trace("pair_old", pair, old.current_term, vf(&old));
        o.lock().unwrap().trace("pair_new", pair, new.current_term, vf(&new));
        let eng = FileStorageEngine::new(d.clone()).expect("file engine");
        eng.meta_store().save_hard_state(&old).expect("save old");
        let meta_dir = d.join("meta");
        let before = dir.join(format!("p{pair}-before"));
        copy_dir(&meta_dir, &before);
        // capture images at every crash point of the second save
        let captured: Rc<RefCell<Vec<(String, std::path::PathBuf)>>> = Rc::new(RefCell::new(Vec::new()));
        {
            let cap = captured.clone();
            let imgroot = dir.join(format!("p{pair}-img"));
            d_engine_core::verif::set_hook(Rc::new(move |ev| {
                if let d_engine_core::verif::Event::Point { tag, path: Some(p), .. } = ev {
                    if tag.starts_with("meta_save:") {
                        let n = cap.borrow().len();
                        let dst = imgroot.join(format!("{n}"));
                        copy_dir(p, &dst);
                        cap.borrow_mut().push((tag.to_string(), dst));
                    }
                }
            }));
        }
        eng.meta_store().save_hard_state(&new).expect("save new");
        d_engine_core::verif::clear_hook();
        drop(eng);
        // after save returned: a process crash preserves the new value
        {
            let e = FileStorageEngine::new(d.clone()).expect("reopen");
            let got = e.meta_store().load_hard_state().ok().flatten();
            if got.map(|g| (g.current_term, g.voted_for)) != Some((new.current_term, new.voted_for)) {
                o.lock().unwrap().violate("C21", "saved_state_lost", json!({"engine": "file"}));
            }
        }
        let check_image = |img_meta: &std::path::Path, point: &str, tear: Option<(String, usize, usize)>, o: &OracleRef| {
            // engine layout: <root>/meta/...
            let eroot = img_meta.parent().unwrap().join(format!("{}-open", img_meta.file_name().unwrap().to_string_lossy()));
            copy_dir(img_meta, &eroot.join("meta"));
            let w = json!({"engine": "file", "point": point, "semantics": if tear.is_some() { "power_loss_torn_write" } else { "process_crash" },
                           "torn_file": tear.as_ref().map(|t| t.0.clone()), "tear_len": tear.as_ref().map(|t| t.1), "full_len": tear.as_ref().map(|t| t.2)});
            match FileStorageEngine::new(eroot.clone()) {
                Err(_) => o.lock().unwrap().violate("C21", "hard_state_undecodable", w),
                Ok(e) => match e.meta_store().load_hard_state() {
                    Err(_) => o.lock().unwrap().violate("C21", "hard_state_undecodable", w),
                    Ok(None) => o.lock().unwrap().violate("C21", "hard_state_missing_after_crash", w),
                    Ok(Some(g)) => {
                        let gv = (g.current_term, g.voted_for);
                        let which = if gv == (new.current_term, new.voted_for) {
                            1
                        } else if gv == (old.current_term, old.voted_for) {
                            0
                        } else {
                            2
                        };
                        o.lock().unwrap().trace("decoded", which, tear.as_ref().map(|t| t.1 as u64).unwrap_or(u64::MAX), point.len() as u64);
                        if which == 2 {
                            o.lock().unwrap().violate("C21", "hard_state_neither_old_nor_new", w);
                        }
                    }
                },
            }
            let _ = std::fs::remove_dir_all(&eroot);
        };
        for (tag, img) in captured.borrow().iter() {
            points_seen.insert(tag.clone());
            images += 1;
            o.lock().unwrap().trace("img", pair, images, 0);
            check_image(img, tag, None, o);
            // torn variants (only before the code has synced the file) of files that changed
            // relative to the pre-save image
            let unsynced_point = tag.ends_with("after_create") || tag.ends_with("after_write");
            if !unsynced_point {
                continue;
            }
            if let Ok(rd) = std::fs::read_dir(img) {
                for e in rd.flatten() {
                    let name = e.file_name().to_string_lossy().to_string();
                    let cur = std::fs::read(e.path()).unwrap_or_default();
                    let prev = std::fs::read(before.join(&name)).ok();
                    if prev.as_deref() == Some(&cur[..]) || cur.is_empty() {
                        continue;
                    }
                    for k in 0..cur.len() {
                        let timg = dir.join(format!("p{pair}-torn"));
                        let _ = std::fs::remove_dir_all(&timg);
                        copy_dir(img, &timg);
                        std::fs::write(timg.join(&name), &cur[..k]).unwrap();
                        images += 1;
                        check_image(&timg, tag, Some((name.clone(), k, cur.len())), o);
                    }
                }
            }
        }
        // RocksDB meta store: value saved, store closed and reopened -> new
        let d3 = dir.join(format!("p{pair}-rocks"));
        {
            let e = RocksDBStorageEngine::new(d3.clone()).expect("rocks");
            e.meta_store().save_hard_state(&old).unwrap();
            e.meta_store().save_hard_state(&new).unwrap();
        }
        tokio::time::sleep(Duration::from_millis(1)).await;
        let e = RocksDBStorageEngine::new(d3.clone()).expect("rocks reopen");
        let got = e.meta_store().load_hard_state().ok().flatten();
        if got.map(|g| (g.current_term, g.voted_for)) != Some((new.current_term, new.voted_for)) {
            o.lock().unwrap().violate("C21", "saved_state_lost", json!({"engine": "rocksdb"}));
        }
    }
    json!({"crash_images": images, "crash_points": points_seen})
}

// ───────────────────────── entry points ─────────────────────────

pub fn run_cli(seed: u64, kv: &HashMap<String, String>) -> i32 {
    let mode = kv.get("mode").cloned().unwrap_or_else(|| "c19".into());
    let plan: LogPlan = match kv.get("plan") {
        Some(p) => {
            let v: Value = serde_json::from_str(&std::fs::read_to_string(p).expect("read plan")).expect("json");
            serde_json::from_value(v.get("plan").cloned().unwrap_or(v)).expect("plan schema")
        }
        None => gen_plan(seed, &mode),
    };
    let res = std::thread::Builder::new()
        .stack_size(64 << 20)
        .spawn(move || run_on_thread(plan))
        .unwrap()
        .join()
        .unwrap_or_else(|_| json!({"harness_error": "logsim thread panicked"}));
    let out = serde_json::to_string(&res).unwrap();
    if let Some(p) = kv.get("out") {
        std::fs::write(p, &out).unwrap();
    } else {
        eprintln!("RESULT {out}");
    }
    0
}

fn run_on_thread(plan: LogPlan) -> Value {
    crate::seams::enter_sim_thread(plan.seed);
    crate::seams::reset_time();
    crate::oracle::reset_event_seq();
    tokio::verif::reset();
    let root = crate::cluster::tmp_root();
    let _ = std::fs::remove_dir_all(&root);
    std::fs::create_dir_all(&root).unwrap();
    let rt = tokio::runtime::Builder::new_current_thread().enable_time().start_paused(true).build().unwrap();
    let o = Oracle::new(false);
    let o2 = o.clone();
    let p2 = plan.clone();
    let root2 = root.clone();
    let stats = rt.block_on(async move {
        match p2.mode.as_str() {
            "c20" | "c20x" => run_store(&p2, &o2, &root2).await,
            "c21" => run_meta(&p2, &o2, &root2).await,
            _ => run_buffered(&p2, &o2).await,
        }
    });
    drop(rt);
    let _ = std::fs::remove_dir_all(&root);
    let og = o.lock().unwrap();
    let nontrivial = match plan.mode.as_str() {
        "c18" => stats["crashes"].as_u64().unwrap_or(0) > 0,
        "c21" => true,
        _ => plan.ops.len() > 3,
    };
    let mut res = json!({
        "seed": plan.seed, "scenario": plan.mode, "vtime_ms": crate::seams::vnow_ms(), "oracle": og.summary(),
        "nontrivial": nontrivial, "stats": stats, "event_seq": og.trace_len,
        "plan_summary": {"ops": plan.ops.len(), "engine": plan.engine, "hists": plan.hists.len()},
        "faults_fired": {"crash": stats["crashes"].as_u64().unwrap_or(0), "reopen": stats["reopens"].as_u64().unwrap_or(0),
                         "crash_image": stats["crash_images"].as_u64().unwrap_or(0)},
        "sample": plan.ops.iter().take(12).map(|x| format!("{x:?}")).collect::<Vec<_>>(),
    });
    if !og.violations.is_empty() {
        res["plan"] = serde_json::to_value(&plan).unwrap();
    }
    res
}

//! `MemSm` (ideal in-memory state machine with an atomically persistent image) and
//! `ObservedSm<S>` (recording / fencing / latency wrapper) — DESIGN.md §3.7.

use std::collections::BTreeMap;
use std::path::PathBuf;
use std::sync::atomic::{AtomicBool, Ordering};
use std::sync::{Arc, Mutex};

use async_trait::async_trait;
use bytes::Bytes;
use d_engine_core::{ApplyEntry, ApplyResult, Command, Error, ScanResult, StateMachine, StorageError};
use d_engine_proto::common::LogId;
use d_engine_proto::server::storage::SnapshotMetadata;

use crate::rng::keyed;

fn sm_err(msg: impl Into<String>) -> Error {
    StorageError::StateMachineError(msg.into()).into()
}

pub fn wall_ms() -> u64 {
    std::time::SystemTime::now()
        .duration_since(std::time::UNIX_EPOCH)
        .map(|d| d.as_millis() as u64)
        .unwrap_or(0)
}

/// The durable image of a `MemSm`. Lives across incarnations of a node.
#[derive(Default, Clone, Debug)]
pub struct SmImage {
    /// key -> (value, expire_at_wall_ms)
    pub data: BTreeMap<Bytes, (Bytes, Option<u64>)>,
    pub last_applied: (u64, u64), // (index, term)
    pub snapshot_meta: Option<(u64, u64, Bytes)>, // (index, term, checksum)
}

pub type SmImageRef = Arc<Mutex<SmImage>>;

#[derive(Debug)]
pub struct MemSm {
    pub img: SmImageRef,
    running: AtomicBool,
}

impl MemSm {
    pub fn open(img: &SmImageRef) -> Self {
        MemSm { img: img.clone(), running: AtomicBool::new(false) }
    }

    pub fn encode_snapshot(img: &SmImage) -> Vec<u8> {
        let mut buf = Vec::new();
        buf.extend_from_slice(&(img.data.len() as u64).to_be_bytes());
        for (k, (v, exp)) in &img.data {
            buf.extend_from_slice(&(k.len() as u64).to_be_bytes());
            buf.extend_from_slice(k);
            buf.extend_from_slice(&(v.len() as u64).to_be_bytes());
            buf.extend_from_slice(v);
            buf.extend_from_slice(&exp.map(|e| e + 1).unwrap_or(0).to_be_bytes());
        }
        buf
    }

    pub fn decode_snapshot(buf: &[u8]) -> Option<BTreeMap<Bytes, (Bytes, Option<u64>)>> {
        let mut pos = 0usize;
        let rd = |pos: &mut usize| -> Option<u64> {
            let b = buf.get(*pos..*pos + 8)?;
            *pos += 8;
            Some(u64::from_be_bytes(b.try_into().ok()?))
        };
        let n = rd(&mut pos)?;
        let mut out = BTreeMap::new();
        for _ in 0..n {
            let kl = rd(&mut pos)? as usize;
            let k = Bytes::copy_from_slice(buf.get(pos..pos + kl)?);
            pos += kl;
            let vl = rd(&mut pos)? as usize;
            let v = Bytes::copy_from_slice(buf.get(pos..pos + vl)?);
            pos += vl;
            let e = rd(&mut pos)?;
            out.insert(k, (v, if e == 0 { None } else { Some(e - 1) }));
        }
        Some(out)
    }
}

#[async_trait]
impl StateMachine for MemSm {
    async fn start(&self) -> Result<(), Error> {
        self.running.store(true, Ordering::SeqCst);
        Ok(())
    }
    fn stop(&self) -> Result<(), Error> {
        self.running.store(false, Ordering::SeqCst);
        Ok(())
    }
    fn is_running(&self) -> bool {
        self.running.load(Ordering::SeqCst)
    }
    fn get(&self, key: &[u8]) -> Result<Option<Bytes>, Error> {
        Ok(self.img.lock().unwrap().data.get(key).map(|(v, _)| v.clone()))
    }
    fn get_multi(&self, keys: &[Bytes]) -> Result<Vec<Option<Bytes>>, Error> {
        let g = self.img.lock().unwrap();
        Ok(keys.iter().map(|k| g.data.get(k).map(|(v, _)| v.clone())).collect())
    }
    fn entry_term(&self, _entry_id: u64) -> Option<u64> {
        None
    }
    async fn apply_chunk(&self, chunk: &[ApplyEntry]) -> Result<Vec<ApplyResult>, Error> {
        let mut g = self.img.lock().unwrap();
        let mut res = Vec::with_capacity(chunk.len());
        for e in chunk {
            match &e.command {
                Command::Noop => res.push(ApplyResult::success(e.index)),
                Command::Insert { key, value, ttl_secs } => {
                    let exp = ttl_secs.map(|t| wall_ms() + t * 1000);
                    g.data.insert(key.clone(), (value.clone(), exp));
                    res.push(ApplyResult::success(e.index));
                }
                Command::Delete { key } => {
                    g.data.remove(key);
                    res.push(ApplyResult::success(e.index));
                }
                Command::CompareAndSwap { key, expected, value } => {
                    let cur = g.data.get(key).map(|(v, _)| v.clone());
                    let ok = match (&cur, expected) {
                        (Some(c), Some(x)) => c == x,
                        (None, None) => true,
                        _ => false,
                    };
                    if ok {
                        g.data.insert(key.clone(), (value.clone(), None));
                        res.push(ApplyResult::success(e.index));
                    } else {
                        res.push(ApplyResult::failure(e.index));
                    }
                }
            }
            g.last_applied = (e.index, e.term);
        }
        Ok(res)
    }
    fn len(&self) -> usize {
        self.img.lock().unwrap().data.len()
    }
    fn update_last_applied(&self, la: LogId) {
        self.img.lock().unwrap().last_applied = (la.index, la.term);
    }
    fn last_applied(&self) -> LogId {
        let (index, term) = self.img.lock().unwrap().last_applied;
        LogId { index, term }
    }
    fn persist_last_applied(&self, la: LogId) -> Result<(), Error> {
        self.update_last_applied(la);
        Ok(())
    }
    fn update_last_snapshot_metadata(&self, m: &SnapshotMetadata) -> Result<(), Error> {
        let li = m.last_included.unwrap_or(LogId { index: 0, term: 0 });
        self.img.lock().unwrap().snapshot_meta = Some((li.index, li.term, m.checksum.clone()));
        Ok(())
    }
    fn snapshot_metadata(&self) -> Option<SnapshotMetadata> {
        self.img.lock().unwrap().snapshot_meta.as_ref().map(|(i, t, c)| SnapshotMetadata {
            last_included: Some(LogId { index: *i, term: *t }),
            checksum: c.clone(),
        })
    }
    fn persist_last_snapshot_metadata(&self, m: &SnapshotMetadata) -> Result<(), Error> {
        self.update_last_snapshot_metadata(m)
    }
    async fn apply_snapshot_from_file(&self, metadata: &SnapshotMetadata, dir: PathBuf) -> Result<(), Error> {
        let buf = std::fs::read(dir.join("snapshot.bin")).map_err(StorageError::IoError)?;
        let data = MemSm::decode_snapshot(&buf).ok_or_else(|| sm_err("corrupt snapshot.bin"))?;
        let mut g = self.img.lock().unwrap();
        g.data = data;
        if let Some(li) = metadata.last_included {
            g.last_applied = (li.index, li.term);
            g.snapshot_meta = Some((li.index, li.term, metadata.checksum.clone()));
        }
        Ok(())
    }
    async fn generate_snapshot_data(&self, dir: PathBuf, last_included: LogId) -> Result<Bytes, Error> {
        std::fs::create_dir_all(&dir).map_err(StorageError::IoError)?;
        let buf = {
            let g = self.img.lock().unwrap();
            MemSm::encode_snapshot(&g)
        };
        std::fs::write(dir.join("snapshot.bin"), &buf).map_err(StorageError::IoError)?;
        let sum = Bytes::copy_from_slice(&crc32(&buf).to_be_bytes());
        self.img.lock().unwrap().snapshot_meta = Some((last_included.index, last_included.term, sum.clone()));
        Ok(sum)
    }
    fn save_hard_state(&self) -> Result<(), Error> {
        Ok(())
    }
    fn flush(&self) -> Result<(), Error> {
        Ok(())
    }
    async fn flush_async(&self) -> Result<(), Error> {
        Ok(())
    }
    async fn reset(&self) -> Result<(), Error> {
        let mut g = self.img.lock().unwrap();
        g.data.clear();
        g.last_applied = (0, 0);
        g.snapshot_meta = None;
        Ok(())
    }
    fn scan_prefix(&self, prefix: &[u8]) -> Result<ScanResult, Error> {
        let g = self.img.lock().unwrap();
        let entries = g
            .data
            .iter()
            .filter(|(k, _)| k.starts_with(prefix))
            .map(|(k, (v, _))| (k.clone(), v.clone()))
            .collect();
        Ok(ScanResult { entries, revision: g.last_applied.0 })
    }
    async fn lease_background_cleanup(&self) -> Result<Vec<Bytes>, Error> {
        let now = wall_ms();
        let mut g = self.img.lock().unwrap();
        let dead: Vec<Bytes> =
            g.data.iter().filter(|(_, (_, e))| e.is_some_and(|e| e <= now)).map(|(k, _)| k.clone()).collect();
        for k in &dead {
            g.data.remove(k);
        }
        Ok(dead)
    }
}

fn crc32(data: &[u8]) -> u32 {
    let mut crc = !0u32;
    for b in data {
        crc ^= *b as u32;
        for _ in 0..8 {
            crc = if crc & 1 != 0 { (crc >> 1) ^ 0xEDB8_8320 } else { crc >> 1 };
        }
    }
    !crc
}

// ───────────────────────────── observation wrapper ─────────────────────────────

#[derive(Debug, Clone)]
pub struct ApplyRecord {
    pub node: u32,
    pub inc: u64,
    pub index: u64,
    pub term: u64,
    pub command: Command,
    pub succeeded: bool,
    pub vtime_ms: u64,
    pub seq: u64,
}

/// One `get`/`get_multi`/`scan_prefix` served by the state machine, with the caller context
/// (which handle was used: the Raft core's, the ReadActor's or the embedded client's) — C13.
#[derive(Debug, Clone)]
pub struct ReadRecord {
    pub node: u32,
    pub inc: u64,
    pub tag: &'static str,
    pub keys: Vec<Bytes>,
    pub seq: u64,
    pub vtime_ms: u64,
    /// `ReadLease::is_valid(now)` of this incarnation at the instant of the read
    pub lease_valid: Option<bool>,
    /// role of the node (core state hook view) at the instant of the read
    pub role: i32,
}

#[derive(Debug, Clone)]
pub struct SnapshotRecord {
    pub node: u32,
    pub inc: u64,
    pub kind: &'static str, // "generate" | "install"
    pub label_index: u64,
    pub label_term: u64,
    pub last_applied_at_capture: u64,
    pub vtime_ms: u64,
}

/// Shared (per node, across incarnations) observation log + knobs.
#[derive(Default)]
pub struct SmObserver {
    pub applies: Vec<ApplyRecord>,
    pub snapshots: Vec<SnapshotRecord>,
    pub live_incarnation: u64,
    /// apply latency range in ms (lo, hi); keyed by (node, first index of chunk)
    pub apply_latency_ms: (u64, u64),
    pub stall_until_ms: u64,
    pub fail_apply_at_index: Option<u64>,
    pub reads: u64,
    pub seed: u64,
    pub read_log: Vec<ReadRecord>,
    pub lease: Option<Arc<d_engine_core::ReadLease>>,
    pub oracle: Option<crate::oracle::OracleRef>,
}

pub type SmObsRef = Arc<Mutex<SmObserver>>;

pub struct ObservedSm<S: StateMachine> {
    pub inner: Arc<S>,
    pub node: u32,
    pub inc: u64,
    pub obs: SmObsRef,
    /// which handle this is: "core" (Raft loop, handlers), "read_actor", "embedded"
    pub tag: &'static str,
}

impl<S: StateMachine> std::fmt::Debug for ObservedSm<S> {
    fn fmt(&self, f: &mut std::fmt::Formatter<'_>) -> std::fmt::Result {
        f.debug_struct("ObservedSm").field("node", &self.node).field("inc", &self.inc).finish()
    }
}

impl<S: StateMachine> ObservedSm<S> {
    pub fn new(inner: S, node: u32, obs: &SmObsRef) -> Self {
        let inc = obs.lock().unwrap().live_incarnation;
        ObservedSm { inner: Arc::new(inner), node, inc, obs: obs.clone(), tag: "core" }
    }
    /// A second handle on the same state machine whose reads are recorded under `tag`.
    pub fn with_tag(&self, tag: &'static str) -> Self {
        ObservedSm { inner: self.inner.clone(), node: self.node, inc: self.inc, obs: self.obs.clone(), tag }
    }
    fn record_read(&self, keys: Vec<Bytes>) {
        let (lease, oracle) = {
            let o = self.obs.lock().unwrap();
            (o.lease.clone(), o.oracle.clone())
        };
        let lease_valid = lease.map(|l| l.is_valid(d_engine_core::now_ms()));
        let role = oracle.map(|o| o.lock().unwrap().views.get(&self.node).map(|v| v.role).unwrap_or(-1)).unwrap_or(-1);
        let mut o = self.obs.lock().unwrap();
        o.reads += 1;
        if o.read_log.len() < 200_000 {
            o.read_log.push(ReadRecord {
                node: self.node,
                inc: self.inc,
                tag: self.tag,
                keys,
                seq: crate::oracle::next_event_seq(),
                vtime_ms: crate::seams::vnow_ms(),
                lease_valid,
                role,
            });
        }
    }
    fn fenced(&self) -> bool {
        self.obs.lock().unwrap().live_incarnation != self.inc
    }
}

#[async_trait]
impl<S: StateMachine> StateMachine for ObservedSm<S> {
    async fn start(&self) -> Result<(), Error> {
        self.inner.start().await
    }
    fn stop(&self) -> Result<(), Error> {
        if self.fenced() {
            return Ok(());
        }
        self.inner.stop()
    }
    fn close_storage(&self) {
        if !self.fenced() {
            self.inner.close_storage()
        }
    }
    fn is_running(&self) -> bool {
        self.inner.is_running()
    }
    fn get(&self, key: &[u8]) -> Result<Option<Bytes>, Error> {
        self.record_read(vec![Bytes::copy_from_slice(key)]);
        self.inner.get(key)
    }
    fn get_multi(&self, keys: &[Bytes]) -> Result<Vec<Option<Bytes>>, Error> {
        self.record_read(keys.to_vec());
        self.inner.get_multi(keys)
    }
    fn entry_term(&self, id: u64) -> Option<u64> {
        self.inner.entry_term(id)
    }
    async fn apply_chunk(&self, chunk: &[ApplyEntry]) -> Result<Vec<ApplyResult>, Error> {
        if self.fenced() {
            std::future::pending::<()>().await;
        }
        let (lat, fail) = {
            let o = self.obs.lock().unwrap();
            let first = chunk.first().map(|e| e.index).unwrap_or(0);
            let (lo, hi) = o.apply_latency_ms;
            let h = keyed(o.seed, &[self.node as u64, 77, first]);
            let mut lat = if hi > lo { lo + h % (hi - lo + 1) } else { lo };
            let now = crate::seams::vnow_ms();
            if o.stall_until_ms > now {
                lat += o.stall_until_ms - now;
            }
            let fail = o.fail_apply_at_index.is_some_and(|i| chunk.iter().any(|e| e.index == i));
            (lat, fail)
        };
        if lat > 0 {
            tokio::time::sleep(std::time::Duration::from_millis(lat)).await;
        } else {
            tokio::task::yield_now().await;
        }
        if self.fenced() {
            std::future::pending::<()>().await;
        }
        if fail {
            return Err(sm_err("injected fatal apply error"));
        }
        if std::env::var_os("DSIM_DEBUG_APPLY").is_some() {
            eprintln!("APPLY node={} inc={} t={} chunk={:?}", self.node, self.inc, crate::seams::vnow_ms(), chunk.iter().map(|e| (e.index, format!("{:?}", e.command).chars().take(12).collect::<String>())).collect::<Vec<_>>());
        }
        let res = self.inner.apply_chunk(chunk).await?;
        let now = crate::seams::vnow_ms();
        let mut o = self.obs.lock().unwrap();
        for (e, r) in chunk.iter().zip(res.iter()) {
            let seq = crate::oracle::next_event_seq();
            o.applies.push(ApplyRecord {
                node: self.node,
                inc: self.inc,
                index: e.index,
                term: e.term,
                command: e.command.clone(),
                succeeded: r.succeeded,
                vtime_ms: now,
                seq,
            });
        }
        Ok(res)
    }
    fn len(&self) -> usize {
        self.inner.len()
    }
    fn update_last_applied(&self, la: LogId) {
        if !self.fenced() {
            self.inner.update_last_applied(la)
        }
    }
    fn last_applied(&self) -> LogId {
        self.inner.last_applied()
    }
    fn persist_last_applied(&self, la: LogId) -> Result<(), Error> {
        if self.fenced() {
            return Ok(());
        }
        self.inner.persist_last_applied(la)
    }
    fn update_last_snapshot_metadata(&self, m: &SnapshotMetadata) -> Result<(), Error> {
        if self.fenced() {
            return Ok(());
        }
        self.inner.update_last_snapshot_metadata(m)
    }
    fn snapshot_metadata(&self) -> Option<SnapshotMetadata> {
        self.inner.snapshot_metadata()
    }
    fn persist_last_snapshot_metadata(&self, m: &SnapshotMetadata) -> Result<(), Error> {
        if self.fenced() {
            return Ok(());
        }
        self.inner.persist_last_snapshot_metadata(m)
    }
    async fn apply_snapshot_from_file(&self, metadata: &SnapshotMetadata, dir: PathBuf) -> Result<(), Error> {
        if self.fenced() {
            std::future::pending::<()>().await;
        }
        let r = self.inner.apply_snapshot_from_file(metadata, dir).await;
        if r.is_ok() {
            let li = metadata.last_included.unwrap_or(LogId { index: 0, term: 0 });
            self.obs.lock().unwrap().snapshots.push(SnapshotRecord {
                node: self.node,
                inc: self.inc,
                kind: "install",
                label_index: li.index,
                label_term: li.term,
                last_applied_at_capture: li.index,
                vtime_ms: crate::seams::vnow_ms(),
            });
        }
        r
    }
    async fn generate_snapshot_data(&self, dir: PathBuf, last_included: LogId) -> Result<Bytes, Error> {
        if self.fenced() {
            std::future::pending::<()>().await;
        }
        tokio::task::yield_now().await;
        let la = self.inner.last_applied().index;
        let r = self.inner.generate_snapshot_data(dir, last_included).await;
        if r.is_ok() {
            self.obs.lock().unwrap().snapshots.push(SnapshotRecord {
                node: self.node,
                inc: self.inc,
                kind: "generate",
                label_index: last_included.index,
                label_term: last_included.term,
                last_applied_at_capture: la,
                vtime_ms: crate::seams::vnow_ms(),
            });
        }
        r
    }
    fn save_hard_state(&self) -> Result<(), Error> {
        if self.fenced() {
            return Ok(());
        }
        self.inner.save_hard_state()
    }
    fn flush(&self) -> Result<(), Error> {
        if self.fenced() {
            return Ok(());
        }
        self.inner.flush()
    }
    async fn flush_async(&self) -> Result<(), Error> {
        if self.fenced() {
            return Ok(());
        }
        self.inner.flush_async().await
    }
    async fn reset(&self) -> Result<(), Error> {
        if self.fenced() {
            return Ok(());
        }
        self.inner.reset().await
    }
    fn scan_prefix(&self, prefix: &[u8]) -> Result<ScanResult, Error> {
        self.record_read(vec![Bytes::copy_from_slice(prefix)]);
        self.inner.scan_prefix(prefix)
    }
    async fn lease_background_cleanup(&self) -> Result<Vec<Bytes>, Error> {
        if self.fenced() {
            return Ok(vec![]);
        }
        self.inner.lease_background_cleanup().await
    }
}

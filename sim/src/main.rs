//! dsim — deterministic simulation of d-engine (see /verif/DESIGN.md).

#![allow(dead_code, unused_imports)]
mod checks;
mod clients;
mod cluster;
mod lin;
mod logsim;
mod mergesim;
mod net;
mod node;
mod oracle;
mod plan;
mod rng;
mod scansim;
mod seams;
mod sm;
mod snapsim;
mod smsim;
mod store;
mod watchers;
mod world;

use std::collections::HashMap;

fn arg_map() -> (Vec<String>, HashMap<String, String>) {
    let mut pos = Vec::new();
    let mut kv = HashMap::new();
    let mut it = std::env::args().skip(1).peekable();
    while let Some(a) = it.next() {
        if let Some(k) = a.strip_prefix("--") {
            if let Some((k, v)) = k.split_once('=') {
                kv.insert(k.to_string(), v.to_string());
            } else if it.peek().is_some_and(|n| !n.starts_with("--")) {
                kv.insert(k.to_string(), it.next().unwrap());
            } else {
                kv.insert(k.to_string(), "1".to_string());
            }
        } else {
            pos.push(a);
        }
    }
    (pos, kv)
}

fn main() {
    let (pos, kv) = arg_map();
    // SAFETY: single-threaded at this point.
    unsafe { std::env::set_var("VERIF_TOKIO_INLINE_BLOCKING", "1") };
    let cmd = pos.first().map(|s| s.as_str()).unwrap_or("help");
    match cmd {
        "cluster" => {
            let seed: u64 = kv.get("seed").and_then(|s| s.parse().ok()).unwrap_or(1);
            let code = cluster::run_cli(seed, &kv);
            std::process::exit(code);
        }
        "logsim" => {
            let seed: u64 = kv.get("seed").and_then(|s| s.parse().ok()).unwrap_or(1);
            std::process::exit(logsim::run_cli(seed, &kv));
        }
        "smsim" => {
            let seed: u64 = kv.get("seed").and_then(|s| s.parse().ok()).unwrap_or(1);
            std::process::exit(smsim::run_cli(seed, &kv));
        }
        "mergesim" => {
            let seed: u64 = kv.get("seed").and_then(|s| s.parse().ok()).unwrap_or(1);
            std::process::exit(mergesim::run_cli(seed, &kv));
        }
        "scansim" => {
            let seed: u64 = kv.get("seed").and_then(|s| s.parse().ok()).unwrap_or(1);
            std::process::exit(scansim::run_cli(seed, &kv));
        }
        "snapsim" => {
            let seed: u64 = kv.get("seed").and_then(|s| s.parse().ok()).unwrap_or(1);
            std::process::exit(snapsim::run_cli(seed, &kv));
        }
        "smsim-child" => std::process::exit(smsim::child_main(&kv)),
        _ => {
            eprintln!("usage: dsim cluster --seed N [--plan file] [--out file]");
            std::process::exit(2);
        }
    }
}

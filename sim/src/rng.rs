//! Harness-side PRNG (plan generation) and keyed hashing (network jitter).
//! Independent from the `getrandom` stream that the system under test consumes.

#[derive(Clone, Debug)]
pub struct Rng(pub u64);

pub fn mix(mut z: u64) -> u64 {
    z = z.wrapping_add(0x9E37_79B9_7F4A_7C15);
    z = (z ^ (z >> 30)).wrapping_mul(0xBF58_476D_1CE4_E5B9);
    z = (z ^ (z >> 27)).wrapping_mul(0x94D0_49BB_1331_11EB);
    z ^ (z >> 31)
}

/// Hash of a tuple of integers under a seed; used for keyed, order-independent choices.
pub fn keyed(seed: u64, parts: &[u64]) -> u64 {
    let mut h = mix(seed ^ 0xA076_1D64_78BD_642F);
    for p in parts {
        h = mix(h ^ p.wrapping_mul(0xE703_7ED1_A0B4_28DB));
    }
    h
}

impl Rng {
    pub fn new(seed: u64) -> Self {
        Rng(mix(seed))
    }
    pub fn next(&mut self) -> u64 {
        self.0 = self.0.wrapping_add(0x9E37_79B9_7F4A_7C15);
        let mut z = self.0;
        z = (z ^ (z >> 30)).wrapping_mul(0xBF58_476D_1CE4_E5B9);
        z = (z ^ (z >> 27)).wrapping_mul(0x94D0_49BB_1331_11EB);
        z ^ (z >> 31)
    }
    /// Uniform in [0, n). n must be > 0.
    pub fn below(&mut self, n: u64) -> u64 {
        self.next() % n
    }
    /// Uniform in [lo, hi] inclusive.
    pub fn range(&mut self, lo: u64, hi: u64) -> u64 {
        if hi <= lo {
            return lo;
        }
        lo + self.below(hi - lo + 1)
    }
    pub fn chance(&mut self, num: u64, den: u64) -> bool {
        self.below(den) < num
    }
    pub fn pick<'a, T>(&mut self, v: &'a [T]) -> &'a T {
        &v[self.below(v.len() as u64) as usize]
    }
    pub fn fork(&mut self, tag: u64) -> Rng {
        Rng::new(self.next() ^ mix(tag))
    }
}

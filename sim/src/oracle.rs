//! Ledgers, invariants and violation records (DESIGN.md §6, Appendix A).
//!
//! The oracle is fed by the seams (transport, storage, state machine observers, the
//! core's state hook) while a run proceeds. It never draws randomness and never
//! influences the schedule.

use std::collections::{BTreeMap, BTreeSet};
use std::sync::atomic::{AtomicU64, Ordering};
use std::sync::{Arc, Mutex};

use d_engine_proto::server::election::{VoteRequest, VoteResponse};
use d_engine_proto::server::replication::{AppendEntriesRequest, AppendEntriesResponse};
use serde::Serialize;
use serde_json::{Value, json};

static EVENT_SEQ: AtomicU64 = AtomicU64::new(0);

pub fn next_event_seq() -> u64 {
    EVENT_SEQ.fetch_add(1, Ordering::SeqCst) + 1
}
pub fn reset_event_seq() {
    EVENT_SEQ.store(0, Ordering::SeqCst);
}
pub fn current_event_seq() -> u64 {
    EVENT_SEQ.load(Ordering::SeqCst)
}

pub const ROLE_FOLLOWER: i32 = 1;
pub const ROLE_CANDIDATE: i32 = 2;
pub const ROLE_LEADER: i32 = 3;
pub const ROLE_LEARNER: i32 = 4;

#[derive(Debug, Clone, Serialize)]
pub struct Violation {
    pub property: String,
    pub kind: String,
    pub witness: Value,
    pub vtime_ms: u64,
    pub event_seq: u64,
}

#[derive(Debug, Clone, Default)]
pub struct NodeView {
    pub role: i32,
    pub term: u64,
    pub commit_index: u64,
    pub voted_for: Option<(u32, u64, bool)>,
    pub leader: Option<u32>,
    pub inc: u64,
    pub up: bool,
}

#[derive(Debug, Clone, Serialize)]
pub struct LeaderEvidence {
    pub node: u32,
    pub inc: u64,
    pub how: &'static str,
    pub vtime_ms: u64,
}

#[derive(Debug, Clone, Serialize)]
pub struct VoteGrant {
    pub voter: u32,
    pub voter_inc: u64,
    pub candidate: u32,
    pub term: u64,
    pub vtime_ms: u64,
    pub voter_role: i32,
}

#[derive(Default)]
pub struct Oracle {
    pub violations: Vec<Violation>,
    pub probes: BTreeMap<String, u64>,
    pub trace_hash: u64,
    pub trace_len: u64,
    pub trace_log: Option<Vec<String>>,

    pub views: BTreeMap<u32, NodeView>,
    /// term -> leaders seen acting in that term
    pub leaders: BTreeMap<u64, Vec<LeaderEvidence>>,
    /// (voter, term) -> grants that left the voter
    pub grants: BTreeMap<(u32, u64), Vec<VoteGrant>>,
    /// highest term externalised per node (in any message or state report)
    pub max_term_seen: BTreeMap<u32, u64>,
    /// term a node reported right after its latest restart
    pub role_events: Vec<(u64, u32, i32, u64)>, // (vtime, node, role, term)
    /// leader notifications per node (C31)
    pub leader_notes: BTreeMap<u32, Vec<(u64, Option<(u32, u64)>)>>,
    /// successful append acks delivered to a leader: (leader, term) -> follower -> max match
    pub acks: BTreeMap<(u32, u64), BTreeMap<u32, u64>>,
    /// commit ledger: index -> (term, payload hash, first reporter)
    pub commits: BTreeMap<u64, (u64, u64, u32)>,
    pub known_violation_keys: BTreeSet<String>,
    pub last_down_kind: BTreeMap<u32, String>,
    /// voters view of a candidate when it sent vote requests: (node, term) -> voters
    pub vote_time_voters: BTreeMap<(u32, u64), Vec<u32>>,
    /// last notified term per (node, incarnation) for C31
    pub note_terms: BTreeMap<(u32, u64), u64>,
    pub learner_cfg_nodes: BTreeSet<u32>,
    /// peer -> virtual ms at which the latest AppendEntries with prev (0,0) and entries was sent to it
    pub prev_zero_sent: BTreeMap<u32, u64>,
    /// (leader, follower) -> (virtual ms at which a successful append ack was delivered to the leader, ms at which
    /// the request it answers was sent)
    pub ack_times: BTreeMap<(u32, u32), Vec<(u64, u64)>>,
    /// (number of granted vote responses so far, voter of the latest) - event anchor for CrashOnGrant
    pub grant_signal: Option<tokio::sync::watch::Sender<(u64, u32)>>,
    pub grant_count: u64,
    /// (number of Leader transitions so far, node of the latest) - event anchor for IsolateNewLeader
    pub leader_signal: Option<tokio::sync::watch::Sender<(u64, u32)>>,
    pub leader_transitions: u64,
    /// highest index in the commit ledger
    pub max_committed: u64,
    /// leader -> virtual ms of every AppendEntries request it handed to the transport
    pub ae_send_times: BTreeMap<u32, Vec<u64>>,
    /// node -> purge cutoffs issued (virtual ms, cutoff)
    pub purges: BTreeMap<u32, Vec<(u64, u64)>>,
}

pub type OracleRef = Arc<Mutex<Oracle>>;

pub fn vnow() -> u64 {
    crate::seams::vnow_ms()
}

impl Oracle {
    pub fn new(trace: bool) -> OracleRef {
        let mut o = Oracle::default();
        if trace {
            o.trace_log = Some(Vec::new());
        }
        Arc::new(Mutex::new(o))
    }

    pub fn probe(&mut self, name: &str) {
        *self.probes.entry(name.to_string()).or_insert(0) += 1;
    }
    pub fn probe_n(&mut self, name: &str, n: u64) {
        *self.probes.entry(name.to_string()).or_insert(0) += n;
    }

    /// Append an event to the run trace hash (and the optional full trace log).
    pub fn trace(&mut self, kind: &str, a: u64, b: u64, c: u64) {
        let mut h = self.trace_hash ^ 0x51_7C_C1_B7_27_22_0A_95;
        for x in kind.bytes() {
            h = crate::rng::mix(h ^ x as u64);
        }
        h = crate::rng::mix(h ^ a);
        h = crate::rng::mix(h ^ b.rotate_left(17));
        h = crate::rng::mix(h ^ c.rotate_left(41));
        h = crate::rng::mix(h ^ vnow());
        self.trace_hash = h;
        self.trace_len += 1;
        if let Some(l) = self.trace_log.as_mut() {
            l.push(format!("{} {} {} {} {}", vnow(), kind, a, b, c));
        }
    }

    pub fn violate(&mut self, property: &str, kind: &str, witness: Value) {
        // de-duplicate identical (property, kind, witness) reports
        let key = format!("{property}|{kind}|{witness}");
        if !self.known_violation_keys.insert(key) {
            return;
        }
        if self.violations.len() >= 64 {
            return;
        }
        self.violations.push(Violation {
            property: property.to_string(),
            kind: kind.to_string(),
            witness,
            vtime_ms: vnow(),
            event_seq: current_event_seq(),
        });
    }

    fn note_term(&mut self, node: u32, term: u64, what: &str) {
        let e = self.max_term_seen.entry(node).or_insert(0);
        if term > *e {
            *e = term;
        }
        let _ = what;
    }

    // ───────────── leader ledger (C01, C31) ─────────────

    pub fn acts_as_leader(&mut self, node: u32, term: u64, how: &'static str) {
        let inc = self.views.get(&node).map(|v| v.inc).unwrap_or(0);
        let list = self.leaders.entry(term).or_default();
        if list.iter().any(|e| e.node == node) {
            return;
        }
        list.push(LeaderEvidence { node, inc, how, vtime_ms: vnow() });
        if list.len() > 1 {
            let a = list[0].clone();
            let b = list[list.len() - 1].clone();
            let votes_a: Vec<u32> = self.granted_to(a.node, term);
            let votes_b: Vec<u32> = self.granted_to(b.node, term);
            let double: Vec<u32> = votes_a.iter().filter(|v| votes_b.contains(v)).cloned().collect();
            self.violate(
                "C01",
                "two_leaders_in_term",
                json!({"term": term, "a": a.node, "b": b.node, "how_a": a.how, "how_b": b.how,
                       "votes_a": votes_a, "votes_b": votes_b, "double_voters": double}),
            );
        }
    }

    pub fn granted_to(&self, cand: u32, term: u64) -> Vec<u32> {
        let mut v: Vec<u32> = self
            .grants
            .iter()
            .filter(|((_, t), _)| *t == term)
            .flat_map(|(_, g)| g.iter())
            .filter(|g| g.candidate == cand)
            .map(|g| g.voter)
            .collect();
        v.sort();
        v.dedup();
        v
    }

    // ───────────── votes (C01, C02, C27) ─────────────

    pub fn on_vote_request_sent(&mut self, from: u32, req: &VoteRequest, voters: Vec<u32>) {
        self.note_term(from, req.term, "vote_req");
        self.vote_time_voters.insert((from, req.term), voters);
        self.trace("vote_req", from as u64, req.term, req.last_log_index);
        if self.views.get(&from).map(|v| v.role) == Some(ROLE_LEARNER) {
            self.violate("C27", "learner_requested_vote", json!({"node": from, "term": req.term}));
        }
    }

    /// A vote response left `voter` (handler returned at the voter).
    pub fn on_vote_response(&mut self, voter: u32, cand: u32, req_term: u64, resp: &VoteResponse) {
        self.trace("vote_resp", voter as u64, cand as u64, (req_term << 1) | resp.vote_granted as u64);
        if !resp.vote_granted {
            return;
        }
        self.note_term(voter, req_term, "vote_grant");
        let (inc, role) = self.views.get(&voter).map(|v| (v.inc, v.role)).unwrap_or((0, -1));
        if role == ROLE_LEARNER {
            self.violate("C27", "learner_granted_vote", json!({"node": voter, "term": req_term, "candidate": cand}));
        }
        self.grant_count += 1;
        if let Some(tx) = &self.grant_signal {
            let _ = tx.send((self.grant_count, voter));
        }
        let g = VoteGrant { voter, voter_inc: inc, candidate: cand, term: req_term, vtime_ms: vnow(), voter_role: role };
        let list = self.grants.entry((voter, req_term)).or_default();
        let other = list.iter().find(|x| x.candidate != cand).cloned();
        list.push(g);
        if let Some(o) = other {
            if o.voter_inc == inc {
                self.violate(
                    "C01",
                    "double_vote_same_incarnation",
                    json!({"voter": voter, "term": req_term, "cand1": o.candidate, "cand2": cand}),
                );
            } else {
                self.violate(
                    "C02",
                    "double_vote_across_crash",
                    json!({"voter": voter, "term": req_term, "cand1": o.candidate, "cand2": cand,
                           "inc1": o.voter_inc, "inc2": inc}),
                );
            }
        }
    }

    // ───────────── append entries (C01, C08, C09) ─────────────

    pub fn on_append_sent(&mut self, leader: u32, peer: u32, req: &AppendEntriesRequest, cap: u64) {
        self.note_term(leader, req.term, "ae");
        self.trace("ae", leader as u64, peer as u64, (req.prev_log_index << 16) ^ req.entries.len() as u64);
        self.acts_as_leader(leader, req.term, "append_entries_sent");
        let v = self.ae_send_times.entry(leader).or_default();
        if v.last() != Some(&vnow()) {
            v.push(vnow());
        }
        // C08: contiguity
        let mut expect = req.prev_log_index + 1;
        let mut ok = true;
        for e in &req.entries {
            if e.index != expect {
                ok = false;
                break;
            }
            expect += 1;
        }
        if !ok {
            let idx: Vec<u64> = req.entries.iter().map(|e| e.index).collect();
            self.violate(
                "C08",
                "noncontiguous_request",
                json!({"leader": leader, "peer": peer, "prev": req.prev_log_index, "indexes": idx, "cap": cap}),
            );
        }
        if req.prev_log_index == 0 && req.prev_log_term == 0 && !req.entries.is_empty() {
            self.prev_zero_sent.insert(peer, vnow());
            self.probe("ae_prev_zero_with_entries");
        }
        if req.entries.len() as u64 > cap {
            self.probe("request_over_cap");
        }
        if !req.entries.is_empty() {
            self.probe("ae_with_entries");
        }
    }

    pub fn on_append_response_delivered(&mut self, leader: u32, follower: u32, resp: &AppendEntriesResponse, req_sent_ms: Option<u64>) {
        use d_engine_proto::server::replication::append_entries_response::Result as R;
        self.note_term(follower, resp.term, "ae_resp");
        let (kind, m) = match &resp.result {
            Some(R::Success(s)) => (1u64, s.last_match.map(|l| l.index).unwrap_or(0)),
            Some(R::Conflict(c)) => (2, c.conflict_index.unwrap_or(0)),
            Some(R::HigherTerm(t)) => (3, *t),
            None => (0, 0),
        };
        self.trace("ae_resp", leader as u64, follower as u64, (kind << 56) | m);
        let lt = self.views.get(&leader).map(|v| v.term).unwrap_or(0);
        if kind == 1 && resp.term == lt {
            let e = self.acks.entry((leader, lt)).or_default().entry(follower).or_insert(0);
            if m > *e {
                *e = m;
            }
            self.ack_times.entry((leader, follower)).or_default().push((vnow(), req_sent_ms.unwrap_or_else(vnow)));
        }
    }

    // ───────────── state reports from the core hook ─────────────

    pub fn on_state(&mut self, node: u32, role: i32, term: u64, commit: u64, voted: Option<(u32, u64, bool)>, leader: Option<u32>) {
        let prev = self.views.get(&node).cloned().unwrap_or_default();
        let inc = prev.inc;
        if prev.role != role || prev.term != term {
            self.trace("role", node as u64, role as u64, term);
            self.role_events.push((vnow(), node, role, term));
        }
        if prev.commit_index != commit {
            self.trace("commit", node as u64, commit, term);
        }
        // C02: current term never decreases (within an incarnation; across incarnations see on_restart)
        if prev.up && term < prev.term {
            self.violate("C02", "term_regressed", json!({"node": node, "before": prev.term, "after": term, "crash_kind": "none"}));
        }
        self.note_term(node, term, "state");
        if role == ROLE_LEADER && prev.role != ROLE_LEADER {
            // Only the transition counts: a leader that adopts a higher term while it is
            // stepping down is not acting as leader of that term unless it emits
            // AppendEntries for it (recorded separately at the transport seam).
            self.acts_as_leader(node, term, "became_leader");
            self.probe("became_leader");
            self.leader_transitions += 1;
            if let Some(tx) = &self.leader_signal {
                let _ = tx.send((self.leader_transitions, node));
            }
        }
        if role == ROLE_LEADER && prev.role == ROLE_LEADER && prev.term != term {
            self.probe("leader_term_bump_before_stepdown");
        }
        if prev.role == ROLE_LEADER && role != ROLE_LEADER && prev.term == term {
            self.probe("same_term_stepdown");
        }
        let v = self.views.entry(node).or_default();
        v.role = role;
        v.term = term;
        v.commit_index = commit;
        v.voted_for = voted;
        v.leader = leader;
        v.up = true;
        v.inc = inc;
    }

    pub fn on_node_start(&mut self, node: u32, inc: u64) {
        self.trace("start", node as u64, inc, 0);
        let v = self.views.entry(node).or_default();
        v.inc = inc;
        v.up = false; // becomes true with the first state report
        v.commit_index = 0;
    }

    /// First state report after a (re)start: C02 term regression across crash.
    pub fn on_first_state_after_start(&mut self, node: u32, term: u64, crash_kind: &str) {
        let seen = self.max_term_seen.get(&node).copied().unwrap_or(0);
        if term < seen {
            self.violate(
                "C02",
                "term_regressed",
                json!({"node": node, "before": seen, "after": term, "crash_kind": crash_kind,
                       "learner_cfg": self.learner_cfg_nodes.contains(&node)}),
            );
        }
    }

    pub fn on_node_down(&mut self, node: u32, kind: &str) {
        self.trace("down", node as u64, kind.len() as u64, 0);
        self.last_down_kind.insert(node, kind.to_string());
        if let Some(v) = self.views.get_mut(&node) {
            v.up = false;
            v.role = -1;
        }
    }

    // ───────────── log compaction (C33) ─────────────

    /// A node's log store is asked to purge entries up to `cutoff`.
    pub fn on_purge(&mut self, node: u32, cutoff: u64, snapshot_boundary: Option<u64>) {
        self.trace("purge", node as u64, cutoff, snapshot_boundary.unwrap_or(0));
        self.probe("purge_done");
        self.purges.entry(node).or_default().push((vnow(), cutoff));
        if cutoff > self.max_committed {
            self.violate("C33", "purged_uncommitted", json!({"node": node, "cutoff": cutoff, "max_committed": self.max_committed}));
        }
        match snapshot_boundary {
            Some(b) if cutoff <= b => {}
            other => {
                self.violate("C33", "purged_without_snapshot", json!({"node": node, "cutoff": cutoff, "snapshot_boundary": other}));
            }
        }
    }

    // ───────────── leader notifications (C31) ─────────────

    pub fn on_leader_note(&mut self, node: u32, note: Option<(u32, u64)>) {
        self.trace("note", node as u64, note.map(|n| n.0 as u64).unwrap_or(0), note.map(|n| n.1).unwrap_or(0));
        let inc = self.views.get(&node).map(|v| v.inc).unwrap_or(0);
        if let Some((l, t)) = note {
            let prev = self.note_terms.get(&(node, inc)).copied().unwrap_or(0);
            if t < prev {
                self.violate("C31", "notified_term_decreased", json!({"node": node, "before": prev, "after": t, "leader": l}));
            }
            self.note_terms.insert((node, inc), t.max(prev));
        }
        self.leader_notes.entry(node).or_default().push((vnow(), note));
    }

    pub fn summary(&self) -> Value {
        json!({
            "violations": self.violations,
            "probes": self.probes,
            "trace_hash": format!("{:016x}", self.trace_hash),
            "trace_len": self.trace_len,
            "terms_with_leader": self.leaders.len(),
            "commit_ledger_len": self.commits.len(),
        })
    }
}

//! Shared run state: nodes, registry of live handles, core state hook with the
//! commit-time oracles (C03, C05, C07, C09).

use std::cell::RefCell;
use std::collections::{BTreeMap, HashMap};
use std::rc::Rc;
use std::sync::{Arc, Mutex};
use std::time::Duration;

use d_engine_core::{BufferedRaftLog, Membership, RaftLog, RaftNodeConfig, ReadConsistencyPolicy};
use d_engine_proto::common::{Entry, NodeRole, NodeStatus};
use d_engine_proto::server::cluster::NodeMeta;
use d_engine_server::verif as hv;
use futures::FutureExt;
use prost::Message;
use serde_json::json;

use crate::net::Net;
use crate::node::{MemT, SimNode};
use crate::oracle::{OracleRef, ROLE_LEADER, ROLE_LEARNER};
use crate::plan::{Knobs, Plan};
use crate::rng::keyed;

#[derive(Clone)]
pub struct LiveHandles {
    pub log: Arc<BufferedRaftLog<MemT>>,
    pub membership: Arc<hv::Membership<MemT>>,
}

/// Handles the (synchronous) state hook needs.
#[derive(Default)]
pub struct Registry {
    pub live: HashMap<u32, LiveHandles>,
}
pub type RegistryRef = Arc<Mutex<Registry>>;

#[derive(Clone, Debug)]
pub struct LedgerEntry {
    pub term: u64,
    pub hash: u64,
    pub entry: Entry,
    pub first_reporter: u32,
    pub vtime_ms: u64,
}

/// Commit ledger and leader-election facts that need live handles.
#[derive(Default)]
pub struct CommitLedger {
    pub by_index: BTreeMap<u64, LedgerEntry>,
    /// voters view of a candidate when it sent vote requests: (node, term) -> voters
    pub vote_time_voters: HashMap<(u32, u64), Vec<u32>>,
}
pub type LedgerRef = Arc<Mutex<CommitLedger>>;

pub struct World {
    pub plan: Plan,
    pub nodes: BTreeMap<u32, Option<SimNode>>,
    pub net: Net,
    pub oracle: OracleRef,
    pub registry: RegistryRef,
    pub ledger: LedgerRef,
    pub root: std::path::PathBuf,
    pub fired: BTreeMap<String, u64>,
    pub faults_active: i64,
    pub in_quiet: bool,
    /// node -> applied index of its state machine at its latest restart (C28)
    pub restart_applied: BTreeMap<u32, u64>,
}
pub type WorldRef = Rc<RefCell<World>>;

pub fn payload_hash(e: &Entry) -> u64 {
    let bytes = e.payload.as_ref().map(|p| p.encode_to_vec()).unwrap_or_default();
    let mut h = keyed(0x5EED, &[bytes.len() as u64]);
    for chunk in bytes.chunks(8) {
        let mut b = [0u8; 8];
        b[..chunk.len()].copy_from_slice(chunk);
        h = crate::rng::mix(h ^ u64::from_le_bytes(b));
    }
    h
}

pub fn node_config(node_id: u32, members: &[(u32, bool)], root: &std::path::Path, k: &Knobs) -> RaftNodeConfig {
    let mut cfg = RaftNodeConfig::default();
    cfg.cluster.node_id = node_id;
    cfg.cluster.initial_cluster = members
        .iter()
        .map(|(id, learner)| NodeMeta {
            id: *id,
            address: format!("127.0.0.1:{}", 9000 + id),
            role: if *learner { NodeRole::Learner as i32 } else { NodeRole::Follower as i32 },
            status: if *learner { NodeStatus::Promotable as i32 } else { NodeStatus::Active as i32 },
        })
        .collect();
    cfg.cluster.listen_address = format!("127.0.0.1:{}", 9000 + node_id).parse().unwrap();
    let dir = root.join(format!("n{node_id}"));
    cfg.cluster.db_root_dir = dir.join("db");
    cfg.cluster.log_dir = dir.join("logs");
    let r = &mut cfg.raft;
    r.snapshot.snapshots_dir = dir.join("snapshots");
    r.election.election_timeout_min = k.election_min;
    r.election.election_timeout_max = k.election_max;
    r.replication.rpc_append_entries_clock_in_ms = k.heartbeat_ms;
    r.replication.append_entries_max_entries_per_replication = k.cap;
    r.batching.max_batch_size = k.max_batch;
    r.batching.max_merge_entries = k.max_merge;
    r.snapshot.retained_log_entries = k.retained;
    r.snapshot.max_log_entries_before_snapshot = k.snap_threshold;
    r.snapshot.enable = k.snapshot_enable;
    r.snapshot.snapshot_cool_down_since_last_check = Duration::from_millis(k.snap_cooldown_ms);
    r.snapshot.max_bandwidth_mbps = 0;
    r.general_raft_timeout_duration_in_ms = k.general_timeout_ms;
    r.membership.verify_leadership_persistent_timeout = Duration::from_millis(k.verify_leadership_ms);
    r.persistence.flush_policy = d_engine_core::FlushPolicy::Batch { idle_flush_interval_ms: k.idle_flush_ms };
    r.read_consistency.lease_duration_ms = k.lease_ms;
    r.read_consistency.default_policy = match k.default_policy {
        0 => ReadConsistencyPolicy::LeaseRead,
        1 => ReadConsistencyPolicy::LinearizableRead,
        _ => ReadConsistencyPolicy::EventualConsistency,
    };
    r.read_consistency.allow_client_override = k.allow_override;
    r.backpressure.max_pending_writes = k.max_pending_writes;
    r.learner_catchup_threshold = k.catchup_threshold;
    if k.stale_learner_ms > 0 {
        r.membership.promotion.stale_learner_threshold = Duration::from_millis(k.stale_learner_ms);
    }
    r.watch.event_queue_size = k.watch_queue;
    r.watch.watcher_buffer_size = k.watch_buf;
    r.watch.heartbeat_interval_ms = k.watch_heartbeat_ms;
    cfg.retry.election.timeout_ms = k.election_retry_timeout_ms;
    cfg
}

fn majority(n: usize) -> usize {
    n / 2 + 1
}

/// Install the core state hook. Everything here is synchronous and never draws randomness.
pub fn install_hook(oracle: OracleRef, registry: RegistryRef, ledger: LedgerRef) {
    d_engine_core::verif::set_hook(Rc::new(move |ev| {
        let d_engine_core::verif::Event::State(v) = ev else { return };
        let prev = oracle.lock().unwrap().views.get(&v.node_id).cloned().unwrap_or_default();
        let first_after_start = !prev.up;
        let handles = registry.lock().unwrap().live.get(&v.node_id).cloned();
        let mut o = oracle.lock().unwrap();
        if first_after_start {
            let kind = o.last_down_kind.get(&v.node_id).cloned().unwrap_or_else(|| "initial".into());
            o.on_first_state_after_start(v.node_id, v.term, &kind);
        }
        let became_leader = v.role == ROLE_LEADER && prev.role != ROLE_LEADER;
        let old_commit = if first_after_start { 0 } else { prev.commit_index };
        o.on_state(v.node_id, v.role, v.term, v.commit_index, v.voted_for, v.leader);
        let Some(h) = handles else { return };
        let voters: Vec<u32> = h.membership.voters().now_or_never().unwrap_or_default().iter().map(|n| n.id).collect();
        let mut led = ledger.lock().unwrap();

        if became_leader {
            // C03: won without votes only if sole voter
            let granted = o.granted_to(v.node_id, v.term);
            let vt = o.vote_time_voters.get(&(v.node_id, v.term)).cloned();
            if !voters.is_empty() {
                o.probe("election_with_peers");
                let init_size = h.membership.initial_cluster_size().now_or_never().unwrap_or(0);
                if init_size == 1 {
                    o.probe("single_node_expanded_then_election");
                }
                let g_in: usize = granted.iter().filter(|g| voters.contains(g)).count();
                let ok_now = 1 + g_in >= majority(voters.len() + 1);
                let ok_then = vt.as_ref().is_some_and(|vv| {
                    vv.is_empty() || 1 + granted.iter().filter(|g| vv.contains(g)).count() >= majority(vv.len() + 1)
                });
                if !ok_now && !ok_then {
                    o.violate(
                        "C03",
                        "leader_without_majority",
                        json!({"node": v.node_id, "term": v.term, "voters_view": voters, "granted": granted,
                               "initial_cluster_size": init_size}),
                    );
                }
            }
            // C05a: leader completeness
            let first = h.log.first_entry_id();
            let last = h.log.last_entry_id();
            let boundary = h.log.last_log_id().filter(|_| last == 0).map(|l| l.index).unwrap_or(first.saturating_sub(1));
            for (idx, le) in led.by_index.iter() {
                if *idx <= boundary && (first == 0 || *idx < first) {
                    continue; // compacted into a snapshot
                }
                let have = h.log.entry(*idx).ok().flatten();
                let okk = have.as_ref().is_some_and(|e| e.term == le.term && payload_hash(e) == le.hash);
                if !okk {
                    o.violate(
                        "C05",
                        "leader_missing_committed",
                        json!({"leader": v.node_id, "term": v.term, "index": idx, "ledger_term": le.term,
                               "have_term": have.map(|e| e.term), "log_first": first, "log_last": last}),
                    );
                    break;
                }
            }
        }

        if v.commit_index > old_commit {
            let entries = h.log.get_entries_range((old_commit + 1)..=v.commit_index).unwrap_or_default();
            let is_leader = v.role == ROLE_LEADER;
            for e in &entries {
                let hsh = payload_hash(e);
                match led.by_index.get(&e.index) {
                    Some(le) => {
                        if le.term != e.term || le.hash != hsh {
                            let (p, kind) = if is_leader { ("C05", "committed_overwritten") } else { ("C07", "follower_committed_unmatched") };
                            o.violate(
                                p,
                                kind,
                                json!({"node": v.node_id, "index": e.index, "node_term_at_index": e.term,
                                       "ledger_term": le.term, "node_current_term": v.term, "role": v.role,
                                       "first_reporter": le.first_reporter}),
                            );
                        }
                    }
                    None => {
                        o.max_committed = o.max_committed.max(e.index);
                        if let Some(d_engine_proto::common::entry_payload::Payload::Config(mc)) = e.payload.as_ref().and_then(|p| p.payload.as_ref()) {
                            use d_engine_proto::common::membership_change::Change;
                            let name = match &mc.change {
                                Some(Change::AddNode(_)) => "config_committed_add_node",
                                Some(Change::RemoveNode(_)) => "config_committed_remove_node",
                                Some(Change::Promote(_)) => "config_committed_promote",
                                Some(Change::BatchPromote(_)) => "config_committed_batch_promote",
                                Some(Change::BatchRemove(_)) => "config_committed_batch_remove",
                                None => "config_committed_empty",
                            };
                            o.probe(name);
                        }
                        led.by_index.insert(
                            e.index,
                            LedgerEntry { term: e.term, hash: hsh, entry: e.clone(), first_reporter: v.node_id, vtime_ms: crate::oracle::vnow() },
                        );
                    }
                }
            }
            if entries.len() as u64 != v.commit_index - old_commit && !first_after_start {
                // committed an index it does not hold (or holds with a gap)
                let have: Vec<u64> = entries.iter().map(|e| e.index).collect();
                let first = h.log.first_entry_id();
                let prev_zero_recent = o.prev_zero_sent.get(&v.node_id).is_some_and(|t| crate::oracle::vnow().saturating_sub(*t) <= 2000)
                    && h.log.last_entry_id() < v.commit_index;
                if old_commit + 1 >= first && first != 0 {
                    o.violate(
                        if is_leader { "C09" } else { "C07" },
                        "committed_index_not_in_log",
                        json!({"node": v.node_id, "from": old_commit + 1, "to": v.commit_index, "have": have, "role": v.role,
                               "log_first": first, "log_last": h.log.last_entry_id(),
                               // cause attribution (KF15 family): the node was sent a prev (0,0) "start from scratch"
                               // request a moment ago, which reset()s the log - entries it had just committed included
                               "log_reset_by_prev_zero_request": prev_zero_recent}),
                    );
                }
            }
            if is_leader {
                o.probe("leader_commit_advance");
                // C09: current-term entry backed by a voter majority
                let n = v.commit_index;
                let et = h.log.entry(n).ok().flatten().map(|e| e.term);
                if et != Some(v.term) {
                    o.violate(
                        "C09",
                        "commit_prev_term_entry",
                        json!({"leader": v.node_id, "term": v.term, "index": n, "entry_term": et}),
                    );
                }
                let acks = o.acks.get(&(v.node_id, v.term)).cloned().unwrap_or_default();
                let ackers: Vec<u32> = acks.iter().filter(|(_, m)| **m >= n).map(|(f, _)| *f).collect();
                let voter_ackers = ackers.iter().filter(|a| voters.contains(a)).count();
                if 1 + voter_ackers < majority(voters.len() + 1) {
                    let learners: Vec<u32> = ackers.iter().filter(|a| !voters.contains(a)).cloned().collect();
                    let kind = if 1 + ackers.len() >= majority(voters.len() + 1) && !learners.is_empty() {
                        "learner_counted"
                    } else {
                        "commit_without_majority"
                    };
                    o.violate(
                        "C09",
                        kind,
                        json!({"leader": v.node_id, "term": v.term, "index": n, "voters_view": voters,
                               "ackers": ackers, "non_voter_ackers": learners}),
                    );
                }
                // C09, literal form: a majority of the voters (leader included) actually hold entry N at this
                // instant (live in-memory log; a node that is down counts if it had acknowledged N)
                if let Some(lt) = et {
                    let reg = registry.lock().unwrap();
                    let mut holders = vec![v.node_id];
                    for f in voters.iter() {
                        let holds = match reg.live.get(f) {
                            Some(hh) => hh.log.entry(n).ok().flatten().is_some_and(|e| e.term == lt)
                                || (hh.log.first_entry_id() > n && hh.log.first_entry_id() > 0),
                            None => ackers.contains(f),
                        };
                        if holds {
                            holders.push(*f);
                        }
                    }
                    if holders.len() < majority(voters.len() + 1) {
                        // cause attribution (KF15 family): an acknowledging voter that does not hold the entry right now was
                        // sent a prev (0,0) "start from scratch" request a moment ago and is in the middle of reset()ting its log
                        let now = crate::oracle::vnow();
                        let missing: Vec<u32> = ackers.iter().filter(|a| voters.contains(a) && !holders.contains(a)).copied().collect();
                        let by_reset = !missing.is_empty()
                            && missing.iter().all(|f| o.prev_zero_sent.get(f).is_some_and(|t| now.saturating_sub(*t) <= 2000));
                        o.violate(
                            "C09",
                            "commit_without_majority_holding",
                            json!({"leader": v.node_id, "term": v.term, "index": n, "voters_view": voters, "holders": holders,
                                   "ackers": ackers, "acked_but_not_holding": missing,
                                   "acknowledging_voters_resetting_log_for_prev_zero_request": by_reset}),
                        );
                    }
                }
            } else if v.role != ROLE_LEARNER || true {
                o.probe("follower_commit_advance");
            }
        }
    }));
}

impl World {
    pub fn fire(&mut self, kind: &str) {
        *self.fired.entry(kind.to_string()).or_insert(0) += 1;
    }
    pub fn up_nodes(&self) -> Vec<u32> {
        self.nodes.iter().filter(|(_, n)| n.as_ref().is_some_and(|n| n.is_up())).map(|(id, _)| *id).collect()
    }
}

//! Simulated clients and the recorded client history (DESIGN.md §3.9, §6).

use std::cell::RefCell;
use std::collections::HashMap;
use std::rc::Rc;
use std::time::Duration;

use bytes::Bytes;
use d_engine_core::client::{
    ClientApi, ClientReadRequest, ClientResponse, ClientResponsePayload, ClientWriteRequest, ErrorCode, WriteOperation,
};
use d_engine_core::{ClientCmd, MaybeCloneOneshot, RaftOneshot, ReadConsistencyPolicy};
use d_engine_proto::client::raft_client_service_server::RaftClientService;
use d_engine_server::verif as hv;
use serde::Serialize;

use crate::node::MemT;
use crate::oracle::next_event_seq;
use crate::plan::{ClientPlan, OpKind};
use crate::world::WorldRef;

#[derive(Clone, Debug, Serialize, PartialEq)]
pub enum Outcome {
    /// write acknowledged; for CAS the reported outcome
    WriteOk(Option<bool>),
    /// read answered: per requested key the value (None = absent)
    ReadOk(Vec<Option<String>>),
    ScanOk { entries: Vec<(String, String)>, revision: u64 },
    /// definitely not executed: rejected before entering the log
    Rejected(String),
    /// may or may not have taken effect
    Indeterminate(String),
    /// accepted by the node but no response arrived by deadline + slack (C30)
    Unresolved(String),
}

#[derive(Clone, Debug, Serialize)]
pub struct HistOp {
    pub id: u64,
    pub client: u32,
    pub kind: OpKind,
    pub keys: Vec<String>,
    pub value: Option<String>,
    pub expected: Option<Option<String>>,
    pub ttl: Option<u64>,
    pub node: u32,
    pub node_inc: u64,
    pub path: u8,
    pub policy: Option<u8>,
    pub invoke_seq: u64,
    pub invoke_ms: u64,
    pub ret_seq: u64,
    pub ret_ms: u64,
    pub outcome: Outcome,
    /// node crashed / was stopped while the request was outstanding
    pub node_died: bool,
    /// commit index minus applied index on the serving node when the request returned
    pub apply_lag_at_ret: u64,
    /// never-written key appended to the read's key list so that the state machine read that
    /// served this operation can be identified (routing scenario, C13); not part of `keys`
    pub marker: Option<String>,
    /// value returned for the marker key (must be absent)
    pub marker_present: bool,
}

#[derive(Default)]
pub struct History {
    pub ops: Vec<HistOp>,
    pub next_id: u64,
}
pub type HistoryRef = Rc<RefCell<History>>;

pub fn key_name(k: u8) -> String {
    // a few boundary encodings among ordinary keys
    match k {
        0 => "k0".to_string(),
        1 => "/p/a".to_string(),
        2 => "/p/b".to_string(),
        3 => "k\u{ff}".to_string(),
        _ => format!("k{k}"),
    }
}

fn classify_status(s: &tonic::Status) -> Outcome {
    use tonic::Code;
    if s.message().contains("Not leader") {
        // the gRPC read handler wraps the core's rejection into Status::internal("RPC error: Not leader")
        return Outcome::Rejected("not_leader".into());
    }
    match s.code() {
        Code::FailedPrecondition if s.message().contains("Not leader") => Outcome::Rejected("not_leader".into()),
        Code::ResourceExhausted => Outcome::Rejected("backpressure".into()),
        Code::InvalidArgument => Outcome::Rejected("invalid".into()),
        Code::Unavailable if s.message().contains("LeaderNotReady") => Outcome::Rejected("leader_not_ready".into()),
        _ => Outcome::Indeterminate(format!("status:{:?}:{}", s.code(), s.message())),
    }
}

fn classify_response(r: &ClientResponse) -> Option<Outcome> {
    match r.error {
        ErrorCode::Success => None,
        ErrorCode::NotLeader => Some(Outcome::Rejected("not_leader".into())),
        ErrorCode::RateLimited => Some(Outcome::Rejected("backpressure".into())),
        ErrorCode::InvalidRequest => Some(Outcome::Rejected("invalid".into())),
        e => Some(Outcome::Indeterminate(format!("code:{e:?}"))),
    }
}

/// Error code of a proto `ClientResponse` (gRPC path) as a history outcome; `None` = success.
fn proto_error_outcome(code: i32) -> Option<Outcome> {
    use d_engine_proto::error::ErrorCode as P;
    match P::try_from(code).unwrap_or(P::Uncategorized) {
        P::Success => None,
        P::NotLeader => Some(Outcome::Rejected("not_leader".into())),
        P::RateLimited => Some(Outcome::Rejected("backpressure".into())),
        P::InvalidRequest => Some(Outcome::Rejected("invalid".into())),
        e => Some(Outcome::Indeterminate(format!("code:{e:?}"))),
    }
}

struct Target {
    node: u32,
    inc: u64,
    cmd_tx: tokio::sync::mpsc::Sender<ClientCmd>,
    embedded: hv::EmbeddedClient<MemT>,
    grpc: std::sync::Arc<d_engine_server::Node<MemT>>,
    deadline_ms: u64,
}

fn pick_target(world: &WorldRef, want: u32, believed: &mut Option<u32>) -> Option<Target> {
    let w = world.borrow();
    let up: Vec<u32> = w
        .up_nodes()
        .into_iter()
        .filter(|id| {
            w.nodes
                .get(id)
                .and_then(|n| n.as_ref())
                .and_then(|n| n.cur.as_ref())
                .is_some_and(|c| c.running.load(std::sync::atomic::Ordering::SeqCst))
        })
        .collect();
    if up.is_empty() {
        return None;
    }
    let n_all = w.nodes.len() as u32;
    let mut id = if want == 0 { believed.unwrap_or(up[0]) } else { (want - 1) % n_all + 1 };
    if !up.contains(&id) {
        id = up[(want as usize) % up.len()];
        *believed = None;
    }
    let node = w.nodes.get(&id)?.as_ref()?;
    let cur = node.cur.as_ref()?;
    let timeout = Duration::from_millis(w.plan.knobs.client_timeout_ms);
    let embedded = hv::new_embedded_client::<MemT>(
        cur.event_tx.clone(),
        cur.sm_embedded.clone(),
        cur.lease.clone(),
        cur.cmd_tx.clone(),
        1000 + id,
        timeout,
        cur.cfg.raft.read_consistency.allow_client_override,
        Some(cur.watch_registry.clone()),
    );
    // applications hand clones of the client to their tasks: every other operation goes through a clone
    let embedded = if crate::oracle::current_event_seq() % 2 == 1 { embedded.clone() } else { embedded };
    Some(Target {
        node: id,
        inc: cur.inc,
        cmd_tx: cur.cmd_tx.clone(),
        embedded,
        grpc: cur.node.clone(),
        deadline_ms: cur.cfg.raft.general_raft_timeout_duration_in_ms,
    })
}

fn node_alive(world: &WorldRef, node: u32, inc: u64) -> bool {
    let w = world.borrow();
    w.nodes.get(&node).and_then(|n| n.as_ref()).and_then(|n| n.cur.as_ref()).is_some_and(|c| c.inc == inc)
}

fn b2s(b: &Bytes) -> String {
    String::from_utf8_lossy(b).to_string()
}

pub async fn run_client(world: WorldRef, hist: HistoryRef, plan: ClientPlan, stop_at_ms: u64) {
    tokio::time::sleep(Duration::from_millis(plan.start_ms)).await;
    let mut believed: Option<u32> = None;
    let mut last_seen: HashMap<String, Option<String>> = HashMap::new();
    let mut counter = 0u64;
    let (client_timeout, tick_ms, use_markers) = {
        let w = world.borrow();
        (w.plan.knobs.client_timeout_ms, w.plan.knobs.heartbeat_ms, w.plan.scenario == "routing")
    };
    for op in plan.ops.iter() {
        tokio::time::sleep(Duration::from_millis(op.gap_ms)).await;
        if crate::seams::vnow_ms() >= stop_at_ms {
            break;
        }
        let Some(t) = pick_target(&world, op.target, &mut believed) else { continue };
        counter += 1;
        let key = key_name(op.key);
        let value = format!("c{}-{}", plan.id, counter);
        let id = {
            let mut h = hist.borrow_mut();
            h.next_id += 1;
            h.next_id
        };
        let mut rec = HistOp {
            id,
            client: plan.id,
            kind: op.kind.clone(),
            keys: vec![key.clone()],
            value: None,
            expected: None,
            ttl: None,
            node: t.node,
            node_inc: t.inc,
            path: op.path,
            policy: None,
            invoke_seq: next_event_seq(),
            invoke_ms: crate::seams::vnow_ms(),
            ret_seq: 0,
            ret_ms: 0,
            outcome: Outcome::Indeterminate("unset".into()),
            node_died: false,
            apply_lag_at_ret: 0,
            marker: None,
            marker_present: false,
        };
        // server-side deadline (C30): general timeout + one tick + scheduling slack
        let c30_wait = Duration::from_millis(t.deadline_ms + 2 * tick_ms + 250);
        let kb = Bytes::from(key.clone());
        let write_cmd: Option<Option<WriteOperation>> = match &op.kind {
            OpKind::Put => {
                rec.value = Some(value.clone());
                Some(Some(WriteOperation::Insert { key: kb.clone(), value: Bytes::from(value.clone()), ttl_secs: None }))
            }
            OpKind::PutTtl => {
                rec.value = Some(value.clone());
                rec.ttl = Some(1_000_000);
                Some(Some(WriteOperation::Insert { key: kb.clone(), value: Bytes::from(value.clone()), ttl_secs: Some(1_000_000) }))
            }
            OpKind::Delete => Some(Some(WriteOperation::Delete { key: kb.clone() })),
            OpKind::Cas(mode) => {
                let exp: Option<String> = match mode {
                    0 => last_seen.get(&key).cloned().flatten(),
                    1 => None,
                    _ => Some("no-such-value".to_string()),
                };
                rec.value = Some(value.clone());
                rec.expected = Some(exp.clone());
                Some(Some(WriteOperation::CompareAndSwap {
                    key: kb.clone(),
                    expected: exp.map(Bytes::from),
                    new_value: Bytes::from(value.clone()),
                }))
            }
            OpKind::Empty => Some(None),
            _ => None,
        };
        if let Some(cmd) = write_cmd {
            // ── writes ──
            let use_embedded = op.path == 1 && matches!(op.kind, OpKind::Put | OpKind::Delete | OpKind::PutTtl | OpKind::Cas(_));
            if use_embedded {
                let r = match &op.kind {
                    OpKind::Put => t.embedded.put(&key, &value).await.map(|_| None),
                    OpKind::PutTtl => ClientApi::put_with_ttl(&t.embedded, &key, &value, 1_000_000).await.map(|_| None),
                    OpKind::Delete => t.embedded.delete(&key).await.map(|_| None),
                    OpKind::Cas(_) => {
                        let exp = rec.expected.clone().flatten();
                        ClientApi::compare_and_swap(&t.embedded, &key, exp.as_ref().map(|s| s.as_bytes().to_vec()), &value)
                            .await
                            .map(Some)
                    }
                    _ => unreachable!(),
                };
                rec.outcome = match r {
                    Ok(cas) => Outcome::WriteOk(cas),
                    Err(e) => {
                        if e.code() == ErrorCode::NotLeader {
                            Outcome::Rejected("not_leader".into())
                        } else if e.code() == ErrorCode::RateLimited || e.code() == ErrorCode::InvalidRequest {
                            Outcome::Rejected(format!("{:?}", e.code()))
                        } else {
                            Outcome::Indeterminate(format!("embedded:{:?}", e.code()))
                        }
                    }
                };
            } else if op.path == 2 {
                // the real tonic service method of Node<T>, called as a Rust method (no sockets)
                use d_engine_proto::client::WriteCommand;
                let pcmd = match &op.kind {
                    OpKind::Put => Some(WriteCommand::insert(kb.clone(), Bytes::from(value.clone()))),
                    OpKind::PutTtl => Some(WriteCommand::insert_with_ttl(kb.clone(), Bytes::from(value.clone()), 1_000_000)),
                    OpKind::Delete => Some(WriteCommand::delete(kb.clone())),
                    OpKind::Cas(_) => Some(WriteCommand::compare_and_swap(
                        kb.clone(),
                        rec.expected.clone().flatten().map(Bytes::from),
                        Bytes::from(value.clone()),
                    )),
                    _ => None,
                };
                let preq = d_engine_proto::client::ClientWriteRequest { client_id: plan.id, command: pcmd };
                let fut = RaftClientService::handle_client_write(&*t.grpc, tonic::Request::new(preq));
                rec.outcome = match tokio::time::timeout(c30_wait.max(Duration::from_millis(client_timeout)), fut).await {
                    Ok(Ok(resp)) => {
                        let resp = resp.into_inner();
                        match proto_error_outcome(resp.error) {
                            Some(o) => o,
                            None => match resp.success_result {
                                Some(d_engine_proto::client::client_response::SuccessResult::WriteResult(wr)) => {
                                    Outcome::WriteOk(if matches!(op.kind, OpKind::Cas(_)) { Some(wr.succeeded) } else { None })
                                }
                                _ => Outcome::Indeterminate("bad_payload".into()),
                            },
                        }
                    }
                    Ok(Err(status)) => classify_status(&status),
                    Err(_) => Outcome::Unresolved("unresolved_past_deadline".into()),
                };
            } else {
                let req = ClientWriteRequest { client_id: plan.id, command: cmd };
                let (tx, rx) = MaybeCloneOneshot::new();
                if t.cmd_tx.send(ClientCmd::Propose(req, tx)).await.is_err() {
                    rec.outcome = Outcome::Rejected("channel_closed".into());
                } else {
                    rec.outcome = match tokio::time::timeout(c30_wait.max(Duration::from_millis(client_timeout)), rx).await {
                        Ok(Ok(Ok(resp))) => match classify_response(&resp) {
                            Some(o) => o,
                            None => match resp.result {
                                Some(ClientResponsePayload::Write(wr)) => {
                                    Outcome::WriteOk(if matches!(op.kind, OpKind::Cas(_)) { Some(wr.succeeded) } else { None })
                                }
                                _ => Outcome::Indeterminate("bad_payload".into()),
                            },
                        },
                        Ok(Ok(Err(status))) => classify_status(&status),
                        Ok(Err(_)) => Outcome::Unresolved("dropped_without_response".into()),
                        Err(_) => Outcome::Unresolved("unresolved_past_deadline".into()),
                    };
                }
            }
        } else {
            // ── reads ──
            let policy = match op.kind {
                OpKind::ReadLin | OpKind::MultiRead => Some(ReadConsistencyPolicy::LinearizableRead),
                OpKind::ReadLease => Some(ReadConsistencyPolicy::LeaseRead),
                OpKind::ReadEventual => Some(ReadConsistencyPolicy::EventualConsistency),
                _ => None,
            };
            rec.policy = policy.as_ref().map(|p| match p {
                ReadConsistencyPolicy::LeaseRead => 0,
                ReadConsistencyPolicy::LinearizableRead => 1,
                ReadConsistencyPolicy::EventualConsistency => 2,
            });
            if matches!(op.kind, OpKind::Scan) {
                let prefix = "/p/".to_string();
                rec.keys = vec![prefix.clone()];
                if op.path == 2 {
                    let preq = d_engine_proto::client::ScanRequest { client_id: plan.id, prefix: Bytes::from(prefix.clone()) };
                    let fut = RaftClientService::handle_client_scan(&*t.grpc, tonic::Request::new(preq));
                    rec.outcome = match tokio::time::timeout(c30_wait, fut).await {
                        Ok(Ok(resp)) => {
                            let sr = resp.into_inner();
                            Outcome::ScanOk { entries: sr.entries.iter().map(|e| (b2s(&e.key), b2s(&e.value))).collect(), revision: sr.revision }
                        }
                        Ok(Err(status)) => classify_status(&status),
                        Err(_) => Outcome::Unresolved("unresolved_past_deadline".into()),
                    };
                    rec.ret_seq = next_event_seq();
                    rec.ret_ms = crate::seams::vnow_ms();
                    rec.node_died = !node_alive(&world, t.node, t.inc);
                    hist.borrow_mut().ops.push(rec);
                    continue;
                }
                let (tx, rx) = MaybeCloneOneshot::new();
                if t.cmd_tx.send(ClientCmd::Scan(Bytes::from(prefix), tx)).await.is_err() {
                    rec.outcome = Outcome::Rejected("channel_closed".into());
                } else {
                    rec.outcome = match tokio::time::timeout(c30_wait, rx).await {
                        Ok(Ok(Ok(sr))) => Outcome::ScanOk {
                            entries: sr.entries.iter().map(|(k, v)| (b2s(k), b2s(v))).collect(),
                            revision: sr.revision,
                        },
                        Ok(Ok(Err(status))) => classify_status(&status),
                        Ok(Err(_)) => Outcome::Unresolved("dropped_without_response".into()),
                        Err(_) => Outcome::Unresolved("unresolved_past_deadline".into()),
                    };
                }
            } else {
                let keys: Vec<String> = if matches!(op.kind, OpKind::MultiRead) {
                    // duplicates and a never-written key on purpose (C35)
                    vec![key.clone(), "never-written".to_string(), key_name((op.key + 1) % 3), key.clone()]
                } else {
                    vec![key.clone()]
                };
                rec.keys = keys.clone();
                let mut kbs: Vec<Bytes> = keys.iter().map(|k| Bytes::from(k.clone())).collect();
                if use_markers {
                    let m = format!("~op{id}");
                    kbs.push(Bytes::from(m.clone()));
                    rec.marker = Some(m);
                }
                let n_real = keys.len();
                let marker_present = std::cell::Cell::new(false);
                let strip = |mut vals: Vec<Option<String>>| -> Vec<Option<String>> {
                    if use_markers && vals.len() == n_real + 1 {
                        marker_present.set(vals.pop().flatten().is_some());
                    }
                    vals
                };
                if op.path == 2 {
                    let preq = d_engine_proto::client::ClientReadRequest {
                        client_id: plan.id,
                        keys: kbs.clone(),
                        consistency_policy: rec.policy.map(|p| p as i32),
                    };
                    let fut = RaftClientService::handle_client_read(&*t.grpc, tonic::Request::new(preq));
                    rec.outcome = match tokio::time::timeout(c30_wait, fut).await {
                        Ok(Ok(resp)) => {
                            let resp = resp.into_inner();
                            match proto_error_outcome(resp.error) {
                                Some(o) => o,
                                None => match resp.success_result {
                                    // as the gRPC client library does: the server's list is sparse (present keys
                                    // only); re-align it with the requested keys
                                    Some(d_engine_proto::client::client_response::SuccessResult::ReadData(rd)) => {
                                        let m: HashMap<Bytes, Bytes> = rd.results.into_iter().map(|e| (e.key, e.value)).collect();
                                        Outcome::ReadOk(strip(kbs.iter().map(|k| m.get(k).map(b2s)).collect()))
                                    }
                                    _ => Outcome::Indeterminate("bad_payload".into()),
                                },
                            }
                        }
                        Ok(Err(status)) => classify_status(&status),
                        Err(_) => Outcome::Unresolved("unresolved_past_deadline".into()),
                    };
                } else if op.path == 1 && policy.is_some() {
                    let r = t.embedded.get_multi_with_consistency(&kbs, policy.clone().unwrap()).await;
                    rec.outcome = match r {
                        Ok(vals) => Outcome::ReadOk(strip(vals.iter().map(|v| v.as_ref().map(b2s)).collect())),
                        Err(e) => {
                            if e.code() == ErrorCode::NotLeader || e.message().contains("Not leader") {
                                // cmd_tx path: the core's Status("Not leader") arrives as a Business
                                // error whose message is "RPC error: Not leader"
                                Outcome::Rejected("not_leader".into())
                            } else {
                                Outcome::Indeterminate(format!("embedded:{:?}:{}", e.code(), e.message()))
                            }
                        }
                    };
                } else {
                    let req = ClientReadRequest { client_id: plan.id, keys: kbs.clone(), consistency_policy: policy.clone() };
                    let (tx, rx) = MaybeCloneOneshot::new();
                    if t.cmd_tx.send(ClientCmd::Read(req, tx)).await.is_err() {
                        rec.outcome = Outcome::Rejected("channel_closed".into());
                    } else {
                        rec.outcome = match tokio::time::timeout(c30_wait, rx).await {
                            Ok(Ok(Ok(resp))) => match classify_response(&resp) {
                                Some(o) => o,
                                None => match resp.result {
                                    Some(ClientResponsePayload::Read(rr)) => {
                                        let m: HashMap<Bytes, Bytes> = rr.entries.into_iter().map(|e| (e.key, e.value)).collect();
                                        Outcome::ReadOk(strip(kbs.iter().map(|k| m.get(k).map(b2s)).collect()))
                                    }
                                    _ => Outcome::Indeterminate("bad_payload".into()),
                                },
                            },
                            Ok(Ok(Err(status))) => classify_status(&status),
                            Ok(Err(_)) => Outcome::Unresolved("dropped_without_response".into()),
                            Err(_) => Outcome::Unresolved("unresolved_past_deadline".into()),
                        };
                    }
                }
                rec.marker_present = marker_present.get();
            }
        }
        rec.ret_seq = next_event_seq();
        rec.ret_ms = crate::seams::vnow_ms();
        rec.node_died = !node_alive(&world, t.node, t.inc);
        {
            let w = world.borrow();
            let commit = w.oracle.lock().unwrap().views.get(&t.node).map(|v| v.commit_index).unwrap_or(0);
            let applied = w.nodes.get(&t.node).and_then(|n| n.as_ref()).map(|n| n.sm_img.lock().unwrap().last_applied.0).unwrap_or(0);
            rec.apply_lag_at_ret = commit.saturating_sub(applied);
        }
        // client-side bookkeeping
        match &rec.outcome {
            Outcome::WriteOk(cas) => {
                believed = Some(t.node);
                match (&op.kind, cas) {
                    (OpKind::Delete, _) => {
                        last_seen.insert(key.clone(), None);
                    }
                    (OpKind::Cas(_), Some(false)) => {}
                    (OpKind::Empty, _) => {}
                    _ => {
                        last_seen.insert(key.clone(), Some(value.clone()));
                    }
                }
            }
            Outcome::ReadOk(vals) => {
                if let Some(v) = vals.first() {
                    last_seen.insert(key.clone(), v.clone());
                }
            }
            Outcome::Rejected(r) if r == "not_leader" => {
                // follow the node's own leader view, as a redirecting client would
                let w = world.borrow();
                believed = w.oracle.lock().unwrap().views.get(&t.node).and_then(|v| v.leader).filter(|l| *l != t.node);
            }
            _ => {
                believed = None;
            }
        }
        hist.borrow_mut().ops.push(rec);
    }
}

//! Process-level seams for time and randomness (DESIGN.md §3.2).
//!
//! The harness binary overrides `clock_gettime`, `getrandom` and `getentropy`.
//! On a thread that has been marked as a simulator thread these are pure functions
//! of the run's seed and of the tokio virtual clock; every other thread (there should
//! be none that matters) gets the real system call.

use std::cell::Cell;
use std::sync::atomic::{AtomicI64, Ordering};

/// Virtual monotonic clock value at virtual time 0 (ns). Far from 0 so that
/// `Instant - Duration` arithmetic in dependencies never underflows.
pub const MONO_BASE_NS: i128 = 1_000_000_000_000_000; // 1e6 s
/// Virtual wall clock at virtual time 0: 2030-01-01T00:00:00Z.
pub const WALL_BASE_NS: i128 = 1_893_456_000_000_000_000;

/// Wall-clock jump injected by the simulator (ns, may be negative).
pub static WALL_JUMP_NS: AtomicI64 = AtomicI64::new(0);

thread_local! {
    static SIM_THREAD: Cell<bool> = const { Cell::new(false) };
    static RNG: Cell<u64> = const { Cell::new(0) };
    static IN_SHIM: Cell<bool> = const { Cell::new(false) };
    static LAST_ELAPSED: Cell<i128> = const { Cell::new(0) };
    static DRAWS: Cell<u64> = const { Cell::new(0) };
}

/// Mark the current thread as a simulator thread and seed its `getrandom` stream.
pub fn enter_sim_thread(seed: u64) {
    SIM_THREAD.with(|c| c.set(true));
    RNG.with(|c| c.set(seed ^ 0x9E37_79B9_7F4A_7C15));
    LAST_ELAPSED.with(|c| c.set(0));
    DRAWS.with(|c| c.set(0));
    WALL_JUMP_NS.store(0, Ordering::SeqCst);
}

pub fn leave_sim_thread() {
    SIM_THREAD.with(|c| c.set(false));
}

pub fn is_sim_thread() -> bool {
    SIM_THREAD.try_with(|c| c.get()).unwrap_or(false)
}

/// Number of bytes-requests served by the seeded `getrandom` on this thread.
pub fn random_draws() -> u64 {
    DRAWS.with(|c| c.get())
}

fn next_u64() -> u64 {
    RNG.with(|c| {
        let mut z = c.get().wrapping_add(0x9E37_79B9_7F4A_7C15);
        c.set(z);
        z = (z ^ (z >> 30)).wrapping_mul(0xBF58_476D_1CE4_E5B9);
        z = (z ^ (z >> 27)).wrapping_mul(0x94D0_49BB_1331_11EB);
        z ^ (z >> 31)
    })
}

fn fill(buf: *mut u8, len: usize) {
    DRAWS.with(|c| c.set(c.get() + 1));
    let mut i = 0;
    while i < len {
        let v = next_u64().to_le_bytes();
        let n = (len - i).min(8);
        unsafe { std::ptr::copy_nonoverlapping(v.as_ptr(), buf.add(i), n) };
        i += n;
    }
}

/// Virtual nanoseconds elapsed since virtual time 0 on this thread.
pub fn virtual_elapsed_ns() -> i128 {
    if IN_SHIM.with(|c| c.replace(true)) {
        // Re-entered (tokio fell back to std::time::Instant::now()): no paused runtime
        // is active, so virtual time stands where it last was.
        return LAST_ELAPSED.with(|c| c.get());
    }
    // With a paused runtime current on this thread tokio answers from its own frozen
    // clock without touching the OS clock; otherwise it calls std -> us -> the branch above.
    let now = tokio::time::Instant::now().into_std();
    let base = base_instant();
    let el = now.checked_duration_since(base).map(|d| d.as_nanos() as i128).unwrap_or(0);
    LAST_ELAPSED.with(|c| {
        if el > c.get() {
            c.set(el)
        }
    });
    IN_SHIM.with(|c| c.set(false));
    LAST_ELAPSED.with(|c| c.get())
}

thread_local! {
    static BASE_INSTANT: Cell<Option<std::time::Instant>> = const { Cell::new(None) };
}

fn base_instant() -> std::time::Instant {
    BASE_INSTANT.with(|c| {
        if let Some(b) = c.get() {
            return b;
        }
        // Called with IN_SHIM set: std::time::Instant::now() re-enters clock_gettime and
        // gets MONO_BASE + LAST_ELAPSED (= MONO_BASE at the first call).
        let saved = LAST_ELAPSED.with(|l| l.replace(0));
        let b = std::time::Instant::now();
        LAST_ELAPSED.with(|l| l.set(saved));
        c.set(Some(b));
        b
    })
}

/// Reset per-thread time state (before building a new runtime on this thread).
pub fn reset_time() {
    LAST_ELAPSED.with(|c| c.set(0));
}

unsafe fn real_clock_gettime(clk: libc::clockid_t, ts: *mut libc::timespec) -> libc::c_int {
    unsafe { libc::syscall(libc::SYS_clock_gettime, clk, ts) as libc::c_int }
}

#[unsafe(no_mangle)]
pub unsafe extern "C" fn clock_gettime(clk: libc::clockid_t, ts: *mut libc::timespec) -> libc::c_int {
    if !is_sim_thread() {
        return unsafe { real_clock_gettime(clk, ts) };
    }
    let total: i128 = match clk {
        libc::CLOCK_REALTIME | libc::CLOCK_REALTIME_COARSE => {
            WALL_BASE_NS + virtual_elapsed_ns() + WALL_JUMP_NS.load(Ordering::SeqCst) as i128
        }
        libc::CLOCK_MONOTONIC
        | libc::CLOCK_MONOTONIC_RAW
        | libc::CLOCK_MONOTONIC_COARSE
        | libc::CLOCK_BOOTTIME => MONO_BASE_NS + virtual_elapsed_ns(),
        _ => return unsafe { real_clock_gettime(clk, ts) },
    };
    unsafe {
        (*ts).tv_sec = (total / 1_000_000_000) as libc::time_t;
        (*ts).tv_nsec = (total % 1_000_000_000) as libc::c_long;
    }
    0
}

#[unsafe(no_mangle)]
pub unsafe extern "C" fn getrandom(buf: *mut libc::c_void, len: libc::size_t, flags: libc::c_uint) -> libc::ssize_t {
    if !is_sim_thread() {
        return unsafe { libc::syscall(libc::SYS_getrandom, buf, len, flags) as libc::ssize_t };
    }
    fill(buf as *mut u8, len);
    len as libc::ssize_t
}

#[unsafe(no_mangle)]
pub unsafe extern "C" fn getentropy(buf: *mut libc::c_void, len: libc::size_t) -> libc::c_int {
    if !is_sim_thread() {
        let r = unsafe { libc::syscall(libc::SYS_getrandom, buf, len, 0) };
        return if r < 0 { -1 } else { 0 };
    }
    fill(buf as *mut u8, len);
    0
}

/// Current virtual time in milliseconds since virtual time 0.
pub fn vnow_ms() -> u64 {
    (virtual_elapsed_ns() / 1_000_000) as u64
}

//! `SimStorageEngine`: reference-grade log/meta store with a page-cache / durable split
//! (DESIGN.md §3.6). One `SimDisk` per simulated node survives across incarnations.

use std::collections::BTreeMap;
use std::ops::RangeInclusive;
use std::sync::{Arc, Mutex};

use async_trait::async_trait;
use d_engine_core::{Error, HardState, LogStore, MetaStore, StorageEngine, StorageError};
use d_engine_proto::common::{Entry, LogId};

use crate::rng::keyed;

#[derive(Clone, Default, Debug)]
pub struct DiskImage {
    pub entries: BTreeMap<u64, Entry>,
    pub purge: Option<LogId>,
    pub hard: Option<HardState>,
}

#[derive(Clone, Debug)]
pub enum DiskOp {
    Persist(Vec<Entry>),
    Truncate(u64),
    Purge(LogId),
    Reset,
}

#[derive(Clone, Debug, Default)]
pub struct DiskFaults {
    /// probability (per mille) that an async log operation fails with EIO
    pub eio_per_mille: u64,
    /// extra virtual latency of async log operations, ms (lo, hi)
    pub latency_ms: (u64, u64),
    /// probability (per mille) that flush() fails
    pub flush_fail_per_mille: u64,
    /// disk stalled until this virtual ms
    pub stall_until_ms: u64,
}

#[derive(Default, Debug, Clone)]
pub struct DiskStats {
    pub persist_calls: u64,
    pub flush_calls: u64,
    pub truncates: u64,
    pub replaces: u64,
    pub purges: u64,
    pub resets: u64,
    pub eio_fired: u64,
    pub flush_fail_fired: u64,
    pub fenced_calls: u64,
    pub hard_saves: u64,
}

pub struct SimDisk {
    pub node: u32,
    pub seed: u64,
    pub cache: DiskImage,
    pub durable: DiskImage,
    pub unsynced: Vec<DiskOp>,
    pub live_incarnation: u64,
    pub faults: DiskFaults,
    pub stats: DiskStats,
    pub op_counter: u64,
    /// (virtual ms, durable max index) for every successful flush
    pub flush_ledger: Vec<(u64, u64)>,
    /// C33: purge calls are judged at the instant they are issued (cluster runs only)
    pub oracle: Option<crate::oracle::OracleRef>,
    pub sm_img: Option<crate::sm::SmImageRef>,
    /// the node's snapshots directory (is the covering snapshot *file* still there?)
    pub snap_dir: Option<std::path::PathBuf>,
}

pub type DiskRef = Arc<Mutex<SimDisk>>;

impl SimDisk {
    pub fn new(node: u32, seed: u64) -> DiskRef {
        Arc::new(Mutex::new(SimDisk {
            node,
            seed,
            cache: DiskImage::default(),
            durable: DiskImage::default(),
            unsynced: Vec::new(),
            live_incarnation: 0,
            faults: DiskFaults::default(),
            stats: DiskStats::default(),
            op_counter: 0,
            flush_ledger: Vec::new(),
            oracle: None,
            sm_img: None,
            snap_dir: None,
        }))
    }

    fn apply(img: &mut DiskImage, op: &DiskOp) {
        match op {
            DiskOp::Persist(es) => {
                for e in es {
                    img.entries.insert(e.index, e.clone());
                }
            }
            DiskOp::Truncate(from) => {
                img.entries.split_off(from);
            }
            DiskOp::Purge(cut) => {
                img.entries = img.entries.split_off(&(cut.index + 1));
                img.purge = Some(*cut);
            }
            DiskOp::Reset => {
                img.entries.clear();
            }
        }
    }

    /// Process crash: page cache survives. Nothing to do to the images.
    pub fn process_crash(&mut self) {
        self.live_incarnation += 1;
    }

    /// Power loss: only synced data survives, plus a seeded prefix of the unsynced
    /// operation list (the last surviving Persist possibly cut short = torn write).
    pub fn power_loss(&mut self, choice: u64) {
        self.live_incarnation += 1;
        let n = self.unsynced.len() as u64;
        let keep = if n == 0 { 0 } else { choice % (n + 1) };
        let mut img = self.durable.clone();
        for (i, op) in self.unsynced.iter().enumerate() {
            if (i as u64) >= keep {
                break;
            }
            if (i as u64) + 1 == keep {
                if let DiskOp::Persist(es) = op {
                    // torn: keep a seeded prefix of the last surviving batch
                    let k = (keyed(choice, &[i as u64]) % (es.len() as u64 + 1)) as usize;
                    Self::apply(&mut img, &DiskOp::Persist(es[..k].to_vec()));
                    continue;
                }
            }
            Self::apply(&mut img, op);
        }
        img.hard = self.durable.hard;
        self.cache = img.clone();
        self.durable = img;
        self.unsynced.clear();
    }

    pub fn last_index(img: &DiskImage) -> u64 {
        img.entries.keys().next_back().copied().unwrap_or(0)
    }
}

fn eio(what: &str) -> Error {
    StorageError::IoError(std::io::Error::other(format!("simulated EIO: {what}"))).into()
}

#[derive(Debug)]
pub struct SimLogStore {
    pub disk: DiskRef,
    pub inc: u64,
}

#[derive(Debug)]
pub struct SimMetaStore {
    pub disk: DiskRef,
    pub inc: u64,
}

#[derive(Debug)]
pub struct SimStorageEngine {
    log: Arc<SimLogStore>,
    meta: Arc<SimMetaStore>,
}

impl std::fmt::Debug for SimDisk {
    fn fmt(&self, f: &mut std::fmt::Formatter<'_>) -> std::fmt::Result {
        f.debug_struct("SimDisk").field("node", &self.node).finish()
    }
}

impl SimStorageEngine {
    /// Open the disk for a new incarnation.
    pub fn open(disk: &DiskRef) -> Arc<Self> {
        let inc = disk.lock().unwrap().live_incarnation;
        Arc::new(SimStorageEngine {
            log: Arc::new(SimLogStore { disk: disk.clone(), inc }),
            meta: Arc::new(SimMetaStore { disk: disk.clone(), inc }),
        })
    }
}

impl StorageEngine for SimStorageEngine {
    type LogStore = SimLogStore;
    type MetaStore = SimMetaStore;
    fn log_store(&self) -> Arc<SimLogStore> {
        self.log.clone()
    }
    fn meta_store(&self) -> Arc<SimMetaStore> {
        self.meta.clone()
    }
}

enum Pre {
    Fenced,
    Fail,
    Go(u64),
}

impl SimLogStore {
    fn pre(&self, kind: u64) -> Pre {
        let mut d = self.disk.lock().unwrap();
        if d.live_incarnation != self.inc {
            d.stats.fenced_calls += 1;
            return Pre::Fenced;
        }
        d.op_counter += 1;
        let c = d.op_counter;
        let h = keyed(d.seed, &[d.node as u64, kind, c]);
        if d.faults.eio_per_mille > 0 && h % 1000 < d.faults.eio_per_mille {
            d.stats.eio_fired += 1;
            return Pre::Fail;
        }
        let (lo, hi) = d.faults.latency_ms;
        let mut lat = if hi > lo { lo + (h >> 20) % (hi - lo + 1) } else { lo };
        let now = crate::seams::vnow_ms();
        if d.faults.stall_until_ms > now {
            lat += d.faults.stall_until_ms - now;
        }
        Pre::Go(lat)
    }

    fn fenced(&self) -> bool {
        let mut d = self.disk.lock().unwrap();
        if d.live_incarnation != self.inc {
            d.stats.fenced_calls += 1;
            true
        } else {
            false
        }
    }

    async fn gate(&self, kind: u64, what: &str) -> Result<(), Error> {
        match self.pre(kind) {
            Pre::Fenced => {
                // A dead incarnation never completes another disk operation.
                std::future::pending::<()>().await;
                unreachable!()
            }
            Pre::Fail => Err(eio(what)),
            Pre::Go(lat) => {
                if lat > 0 {
                    tokio::time::sleep(std::time::Duration::from_millis(lat)).await;
                } else {
                    tokio::task::yield_now().await;
                }
                if self.fenced() {
                    std::future::pending::<()>().await;
                }
                Ok(())
            }
        }
    }

    fn mutate(&self, op: DiskOp) {
        let mut d = self.disk.lock().unwrap();
        if d.live_incarnation != self.inc {
            return;
        }
        SimDisk::apply(&mut d.cache, &op);
        d.unsynced.push(op);
    }
}

#[async_trait]
impl LogStore for SimLogStore {
    async fn persist_entries(&self, entries: Vec<Entry>) -> Result<(), Error> {
        self.gate(1, "persist_entries").await?;
        self.disk.lock().unwrap().stats.persist_calls += 1;
        self.mutate(DiskOp::Persist(entries));
        Ok(())
    }

    async fn entry(&self, index: u64) -> Result<Option<Entry>, Error> {
        Ok(self.disk.lock().unwrap().cache.entries.get(&index).cloned())
    }

    fn get_entries(&self, range: RangeInclusive<u64>) -> Result<Vec<Entry>, Error> {
        if range.start() > range.end() {
            return Ok(vec![]);
        }
        Ok(self.disk.lock().unwrap().cache.entries.range(range).map(|(_, e)| e.clone()).collect())
    }

    async fn purge(&self, cutoff_index: LogId) -> Result<(), Error> {
        self.gate(2, "purge").await?;
        self.disk.lock().unwrap().stats.purges += 1;
        {
            let (oracle, img, node, snap_dir) = {
                let d = self.disk.lock().unwrap();
                (d.oracle.clone(), d.sm_img.clone(), d.node, d.snap_dir.clone())
            };
            if let Some(o) = oracle {
                let snap = img.and_then(|i| i.lock().unwrap().snapshot_meta.as_ref().map(|m| m.0));
                o.lock().unwrap().on_purge(node, cutoff_index.index, snap);
                // is a snapshot *file* whose boundary covers the cutoff still on disk?
                if let Some(dir) = snap_dir {
                    let mut newest: Option<u64> = None;
                    let mut names = Vec::new();
                    if let Ok(rd) = std::fs::read_dir(&dir) {
                        for e in rd.flatten() {
                            let name = e.file_name().to_string_lossy().to_string();
                            // snapshot-<index>-<term>.tar.gz
                            if let Some(rest) = name.strip_prefix("snapshot-") {
                                if name.ends_with(".tar.gz") {
                                    if let Some(idx) = rest.split('-').next().and_then(|x| x.parse::<u64>().ok()) {
                                        newest = Some(newest.map_or(idx, |n| n.max(idx)));
                                        names.push(name.clone());
                                    }
                                }
                            }
                        }
                    }
                    if newest.is_none_or(|n| n < cutoff_index.index) {
                        names.sort();
                        o.lock().unwrap().violate(
                            "C33",
                            "purged_without_snapshot_file",
                            serde_json::json!({"node": node, "cutoff": cutoff_index.index, "newest_snapshot_file_index": newest, "files": names}),
                        );
                    }
                }
            }
        }
        self.mutate(DiskOp::Purge(cutoff_index));
        Ok(())
    }

    async fn truncate(&self, from_index: u64) -> Result<(), Error> {
        self.gate(3, "truncate").await?;
        self.disk.lock().unwrap().stats.truncates += 1;
        self.mutate(DiskOp::Truncate(from_index));
        Ok(())
    }

    async fn replace_range(&self, from_index: u64, new_entries: Vec<Entry>) -> Result<(), Error> {
        self.gate(4, "replace_range").await?;
        // atomic: one unsynced unit
        let mut d = self.disk.lock().unwrap();
        if d.live_incarnation != self.inc {
            return Ok(());
        }
        d.stats.replaces += 1;
        SimDisk::apply(&mut d.cache, &DiskOp::Truncate(from_index));
        SimDisk::apply(&mut d.cache, &DiskOp::Persist(new_entries.clone()));
        d.unsynced.push(DiskOp::Truncate(from_index));
        d.unsynced.push(DiskOp::Persist(new_entries));
        Ok(())
    }

    fn is_write_durable(&self) -> bool {
        false
    }

    fn flush(&self) -> Result<(), Error> {
        let mut d = self.disk.lock().unwrap();
        if d.live_incarnation != self.inc {
            d.stats.fenced_calls += 1;
            return Err(eio("fenced"));
        }
        d.stats.flush_calls += 1;
        d.op_counter += 1;
        let h = keyed(d.seed, &[d.node as u64, 9, d.op_counter]);
        if d.faults.flush_fail_per_mille > 0 && h % 1000 < d.faults.flush_fail_per_mille {
            d.stats.flush_fail_fired += 1;
            return Err(eio("flush"));
        }
        d.durable = d.cache.clone();
        d.unsynced.clear();
        let li = SimDisk::last_index(&d.durable);
        d.flush_ledger.push((crate::seams::vnow_ms(), li));
        Ok(())
    }

    async fn flush_async(&self) -> Result<(), Error> {
        self.flush()
    }

    async fn reset(&self) -> Result<(), Error> {
        self.gate(5, "reset").await?;
        self.disk.lock().unwrap().stats.resets += 1;
        self.mutate(DiskOp::Reset);
        Ok(())
    }

    fn last_index(&self) -> u64 {
        SimDisk::last_index(&self.disk.lock().unwrap().cache)
    }

    fn load_purge_boundary(&self) -> Result<Option<LogId>, Error> {
        Ok(self.disk.lock().unwrap().cache.purge)
    }
}

#[async_trait]
impl MetaStore for SimMetaStore {
    fn save_hard_state(&self, state: &HardState) -> Result<(), Error> {
        let mut d = self.disk.lock().unwrap();
        if d.live_incarnation != self.inc {
            d.stats.fenced_calls += 1;
            return Err(eio("fenced"));
        }
        d.stats.hard_saves += 1;
        // ideal engine: write-through
        d.cache.hard = Some(*state);
        d.durable.hard = Some(*state);
        Ok(())
    }

    fn load_hard_state(&self) -> Result<Option<HardState>, Error> {
        Ok(self.disk.lock().unwrap().cache.hard)
    }
}

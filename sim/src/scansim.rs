//! C25 `scansim`: prefix scans against the real File / RocksDB state machines, quiescent and
//! interleaved with applies at guarded schedule points:
//!   * a scan issued from inside `apply_chunk` (points `fsm_apply:*`, `rsm_apply:*`) - what another thread's
//!     scan sees while the state machine worker is in the middle of a batch;
//!   * an `apply_chunk` driven from inside `scan_prefix` (point `rsm_scan:after_iter`, between the iteration and
//!     the read of the revision) - what the worker can do while the Raft loop's thread is scanning.
//! Oracle: the entries returned equal the reference model *at the revision the scan reports*, restricted to the
//! prefix. The documented scan-then-watch resynchronisation (scan, then take watch events with revision >
//! scan.revision) is replayed on top: applying the later changes to the scanned entries must give the final state.

use std::cell::RefCell;
use std::collections::{BTreeMap, HashMap};
use std::path::Path;
use std::rc::Rc;
use std::sync::Arc;

use bytes::Bytes;
use d_engine_core::{ApplyEntry, Command, StateMachine};
use d_engine_server::{FileStateMachine, RocksDBStateMachine};
use futures::FutureExt;
use serde::{Deserialize, Serialize};
use serde_json::{Value, json};

use crate::oracle::{Oracle, OracleRef};
use crate::rng::Rng;

const KEYS: [&[u8]; 7] = [b"/p/a", b"/p/b", b"/p/\xff", b"/p\xff", b"/q/a", b"/", b"k0"];
const PREFIXES: [&[u8]; 7] = [b"/p/", b"/p", b"/", b"/p/\xff", b"/p\xff", b"/q/", b"k"];

#[derive(Serialize, Deserialize, Clone, Debug)]
#[serde(tag = "c")]
pub enum SCmd {
    Put { k: u8, v: u8 },
    Del { k: u8 },
    Cas { k: u8, exp: u8, v: u8 },
}

#[derive(Serialize, Deserialize, Clone, Debug)]
pub struct ScanPlan {
    pub seed: u64,
    pub engine: String,
    pub chunks: Vec<Vec<SCmd>>,
    /// for chunk i: scan `prefix` from inside apply_chunk at the n-th guarded apply point (0 = none)
    pub scan_in_apply: Vec<(u64, u8)>,
    /// after chunk i: scan `prefix` and, at the point between iteration and revision read, apply chunk i+1
    /// from inside the scan (`true`) or just scan quiescently (`false`)
    pub scan_after: Vec<(bool, u8)>,
}

pub fn gen_scan_plan(seed: u64) -> ScanPlan {
    let mut r = Rng::new(seed ^ 0x5CA5);
    let engine = (*r.pick(&["file", "rocksdb"])).to_string();
    let n = r.range(3, 9) as usize;
    let mut chunks = Vec::new();
    for _ in 0..n {
        let mut c = Vec::new();
        for _ in 0..r.range(1, 5) {
            let k = r.below(KEYS.len() as u64) as u8;
            let v = r.below(4) as u8;
            c.push(match r.below(100) {
                0..=59 => SCmd::Put { k, v },
                60..=79 => SCmd::Del { k },
                _ => SCmd::Cas { k, exp: if r.chance(1, 3) { 255 } else { r.below(4) as u8 }, v },
            });
        }
        chunks.push(c);
    }
    let scan_in_apply = (0..n).map(|_| (if r.chance(1, 2) { r.range(1, 3) } else { 0 }, r.below(PREFIXES.len() as u64) as u8)).collect();
    let scan_after = (0..n).map(|_| (r.chance(1, 2), r.below(PREFIXES.len() as u64) as u8)).collect();
    ScanPlan { seed, engine, chunks, scan_in_apply, scan_after }
}

fn val(v: u8) -> Bytes {
    Bytes::from(format!("v{v}"))
}
fn to_command(c: &SCmd) -> Command {
    match c {
        SCmd::Put { k, v } => Command::Insert { key: Bytes::from_static(KEYS[*k as usize]), value: val(*v), ttl_secs: None },
        SCmd::Del { k } => Command::Delete { key: Bytes::from_static(KEYS[*k as usize]) },
        SCmd::Cas { k, exp, v } => Command::CompareAndSwap {
            key: Bytes::from_static(KEYS[*k as usize]),
            expected: if *exp == 255 { None } else { Some(val(*exp)) },
            value: val(*v),
        },
    }
}
type Kv = BTreeMap<Bytes, Bytes>;
fn model_apply(m: &mut Kv, c: &SCmd) {
    match c {
        SCmd::Put { k, v } => {
            m.insert(Bytes::from_static(KEYS[*k as usize]), val(*v));
        }
        SCmd::Del { k } => {
            m.remove(KEYS[*k as usize]);
        }
        SCmd::Cas { k, exp, v } => {
            let cur = m.get(KEYS[*k as usize]);
            let ok = match (cur, *exp) {
                (None, 255) => true,
                (Some(c), e) if e != 255 => *c == val(e),
                _ => false,
            };
            if ok {
                m.insert(Bytes::from_static(KEYS[*k as usize]), val(*v));
            }
        }
    }
}

#[derive(Clone, Debug)]
struct ScanObs {
    how: &'static str,
    point: String,
    chunk: usize,
    prefix: Vec<u8>,
    entries: Vec<(Bytes, Bytes)>,
    revision: u64,
}

async fn open_sm(engine: &str, dir: &Path) -> Arc<dyn StateMachine> {
    match engine {
        "rocksdb" => {
            let sm = Arc::new(RocksDBStateMachine::new(dir.join("rocks-sm")).expect("open rocksdb sm"));
            sm.start().await.expect("start");
            sm
        }
        _ => {
            let sm = Arc::new(FileStateMachine::new(dir.join("file-sm")).await.expect("open file sm"));
            sm.start().await.expect("start");
            sm
        }
    }
}

async fn run(plan: ScanPlan, root: &Path, o: OracleRef) -> Value {
    let sm = open_sm(&plan.engine, root).await;
    // model states per applied index
    let mut states: Vec<Kv> = vec![Kv::new()];
    let mut first_index_of_chunk = Vec::new();
    {
        let mut m = Kv::new();
        for ch in plan.chunks.iter() {
            first_index_of_chunk.push(states.len() as u64);
            for c in ch {
                model_apply(&mut m, c);
                states.push(m.clone());
            }
        }
    }
    let observed: Rc<RefCell<Vec<ScanObs>>> = Rc::new(RefCell::new(Vec::new()));
    // hook state
    #[derive(Default)]
    struct HookCtl {
        /// scan at the n-th apply point of the current chunk
        scan_at: u64,
        scan_prefix: Vec<u8>,
        seen_apply_points: u64,
        chunk: usize,
        /// entries to apply from inside the next scan
        inject: Option<Vec<ApplyEntry>>,
        injected: bool,
        inject_failed: bool,
        in_hook: bool,
    }
    let ctl: Rc<RefCell<HookCtl>> = Rc::new(RefCell::new(HookCtl::default()));
    {
        let ctl = ctl.clone();
        let sm2 = sm.clone();
        let obs = observed.clone();
        d_engine_core::verif::set_hook(Rc::new(move |ev| {
            let d_engine_core::verif::Event::Point { tag, .. } = ev else { return };
            if ctl.borrow().in_hook {
                return;
            }
            if tag.starts_with("fsm_apply:") || tag.starts_with("rsm_apply:") {
                let (fire, prefix, chunk) = {
                    let mut c = ctl.borrow_mut();
                    c.seen_apply_points += 1;
                    (c.scan_at != 0 && c.seen_apply_points == c.scan_at, c.scan_prefix.clone(), c.chunk)
                };
                if fire {
                    ctl.borrow_mut().in_hook = true;
                    if let Ok(r) = sm2.scan_prefix(&prefix) {
                        obs.borrow_mut().push(ScanObs { how: "scan_inside_apply", point: tag.to_string(), chunk, prefix, entries: r.entries, revision: r.revision });
                    }
                    ctl.borrow_mut().in_hook = false;
                }
            } else if *tag == "rsm_scan:after_iter" {
                let inj = ctl.borrow_mut().inject.take();
                if let Some(entries) = inj {
                    ctl.borrow_mut().in_hook = true;
                    // RocksDB apply_chunk has no real suspension point: drive it to completion right here
                    let done = sm2.apply_chunk(&entries).now_or_never();
                    let mut c = ctl.borrow_mut();
                    c.in_hook = false;
                    match done {
                        Some(Ok(_)) => c.injected = true,
                        _ => c.inject_failed = true,
                    }
                }
            }
        }));
    }
    let mut applied_chunks = 0usize;
    let mut next_index = 1u64;
    let mut i = 0usize;
    let mut injected_applies = 0u64;
    let mut scans_inside_apply = 0u64;
    while i < plan.chunks.len() {
        // apply chunk i (unless a scan already applied it from inside)
        let entries: Vec<ApplyEntry> =
            plan.chunks[i].iter().enumerate().map(|(j, c)| ApplyEntry { index: next_index + j as u64, term: 1, command: to_command(c) }).collect();
        {
            let mut c = ctl.borrow_mut();
            c.scan_at = plan.scan_in_apply[i].0;
            c.scan_prefix = PREFIXES[plan.scan_in_apply[i].1 as usize].to_vec();
            c.seen_apply_points = 0;
            c.chunk = i;
        }
        let n_before = observed.borrow().len();
        if sm.apply_chunk(&entries).await.is_err() {
            o.lock().unwrap().violate("C25", "apply_failed", json!({"chunk": i}));
            break;
        }
        scans_inside_apply += (observed.borrow().len() - n_before) as u64;
        ctl.borrow_mut().scan_at = 0;
        next_index += entries.len() as u64;
        applied_chunks = i + 1;
        // scan after chunk i, possibly with chunk i+1 applied from inside the scan
        let (inject, pfx) = plan.scan_after[i];
        let prefix = PREFIXES[pfx as usize].to_vec();
        let mut how = "quiescent_scan";
        if inject && plan.engine == "rocksdb" && i + 1 < plan.chunks.len() {
            let nxt: Vec<ApplyEntry> =
                plan.chunks[i + 1].iter().enumerate().map(|(j, c)| ApplyEntry { index: next_index + j as u64, term: 1, command: to_command(c) }).collect();
            ctl.borrow_mut().inject = Some(nxt);
            ctl.borrow_mut().injected = false;
            how = "apply_inside_scan";
        }
        match sm.scan_prefix(&prefix) {
            Ok(r) => observed.borrow_mut().push(ScanObs { how, point: String::new(), chunk: i, prefix: prefix.clone(), entries: r.entries, revision: r.revision }),
            Err(e) => o.lock().unwrap().violate("C25", "scan_failed", json!({"error": format!("{e:?}")})),
        }
        let was_injected = {
            let mut c = ctl.borrow_mut();
            c.inject = None;
            if c.inject_failed {
                o.lock().unwrap().probe("could_not_drive_apply_inside_scan");
                c.inject_failed = false;
            }
            c.injected
        };
        if was_injected {
            injected_applies += 1;
            next_index += plan.chunks[i + 1].len() as u64;
            applied_chunks = i + 2;
            ctl.borrow_mut().injected = false;
            i += 2;
        } else {
            i += 1;
        }
    }
    d_engine_core::verif::clear_hook();
    let final_index = next_index - 1;
    let final_state = states[final_index as usize].clone();
    // ── oracle ──
    let mut og = o.lock().unwrap();
    for s in observed.borrow().iter() {
        og.trace("scan", s.revision, s.entries.len() as u64, s.chunk as u64);
        og.probe(s.how);
        if s.revision as usize >= states.len() {
            og.violate("C25", "scan_revision_beyond_applied", json!({"revision": s.revision, "engine": plan.engine}));
            continue;
        }
        let want: Vec<(Bytes, Bytes)> = states[s.revision as usize].iter().filter(|(k, _)| k.starts_with(&s.prefix)).map(|(k, v)| (k.clone(), v.clone())).collect();
        let mut got = s.entries.clone();
        got.sort();
        if got != want {
            // direction: does the result equal the model at another index (data newer or older than the revision)?
            let matches_at: Vec<u64> = (0..states.len() as u64)
                .filter(|i| states[*i as usize].iter().filter(|(k, _)| k.starts_with(&s.prefix)).map(|(k, v)| (k.clone(), v.clone())).collect::<Vec<_>>() == got)
                .collect();
            let direction = if matches_at.iter().any(|i| *i > s.revision) {
                "data_newer_than_revision"
            } else if matches_at.iter().any(|i| *i < s.revision) {
                "data_older_than_revision"
            } else {
                "data_matches_no_single_index"
            };
            let show = |v: &Vec<(Bytes, Bytes)>| v.iter().map(|(k, x)| (String::from_utf8_lossy(k).to_string(), String::from_utf8_lossy(x).to_string())).collect::<Vec<_>>();
            og.violate(
                "C25",
                "scan_not_at_revision",
                json!({"engine": plan.engine, "how": s.how, "point": s.point, "revision": s.revision, "prefix": String::from_utf8_lossy(&s.prefix),
                       "expected": show(&want), "got": show(&got), "direction": direction, "chunk": s.chunk}),
            );
        }
        // scan-then-watch resynchronisation: scanned entries + every later change (revision > scan.revision) = final state
        let mut m: Kv = s.entries.iter().cloned().collect();
        let mut idx = 0u64;
        for ch in plan.chunks.iter().take(applied_chunks) {
            for c in ch {
                idx += 1;
                if idx > s.revision {
                    // watch events exist only for effective changes; model them on the full state then project
                    let mut full = states[idx as usize - 1].clone();
                    let before = full.clone();
                    model_apply(&mut full, c);
                    for (k, v) in full.iter() {
                        if before.get(k) != Some(v) && k.starts_with(&s.prefix) {
                            m.insert(k.clone(), v.clone());
                        }
                    }
                    for k in before.keys() {
                        if !full.contains_key(k) {
                            m.remove(k);
                        }
                    }
                    // blind put of an equal value also produces an event with that value
                    if let SCmd::Put { k, v } = c {
                        if Bytes::from_static(KEYS[*k as usize]).starts_with(&s.prefix) {
                            m.insert(Bytes::from_static(KEYS[*k as usize]), val(*v));
                        }
                    }
                }
            }
        }
        let want_final: Kv = final_state.iter().filter(|(k, _)| k.starts_with(&s.prefix)).map(|(k, v)| (k.clone(), v.clone())).collect();
        if m != want_final {
            og.violate(
                "C25",
                "scan_then_watch_misses_update",
                json!({"engine": plan.engine, "how": s.how, "point": s.point, "revision": s.revision, "prefix": String::from_utf8_lossy(&s.prefix),
                       "chunk": s.chunk}),
            );
        }
    }
    let n_obs = observed.borrow().len();
    json!({"scans": n_obs, "scans_inside_apply": scans_inside_apply, "applies_inside_scan": injected_applies, "chunks": applied_chunks, "final_index": final_index})
}

pub fn run_cli(seed: u64, kv: &HashMap<String, String>) -> i32 {
    let plan: ScanPlan = match kv.get("plan") {
        Some(p) => {
            let v: Value = serde_json::from_str(&std::fs::read_to_string(p).expect("read plan")).expect("json");
            serde_json::from_value(v.get("plan").cloned().unwrap_or(v)).expect("plan schema")
        }
        None => gen_scan_plan(seed),
    };
    let res = std::thread::Builder::new()
        .stack_size(64 << 20)
        .spawn(move || {
            crate::seams::enter_sim_thread(plan.seed);
            crate::seams::reset_time();
            crate::oracle::reset_event_seq();
            tokio::verif::reset();
            let root = crate::cluster::tmp_root();
            let _ = std::fs::remove_dir_all(&root);
            std::fs::create_dir_all(&root).unwrap();
            let rt = tokio::runtime::Builder::new_current_thread().enable_time().start_paused(true).build().unwrap();
            let o = Oracle::new(false);
            let o2 = o.clone();
            let p2 = plan.clone();
            let root2 = root.clone();
            let stats = rt.block_on(async move { run(p2, &root2, o2).await });
            drop(rt);
            let _ = std::fs::remove_dir_all(&root);
            let og = o.lock().unwrap();
            let interleaved = stats["scans_inside_apply"].as_u64().unwrap_or(0) + stats["applies_inside_scan"].as_u64().unwrap_or(0);
            let mut res = json!({
                "seed": plan.seed, "scenario": "scan", "vtime_ms": crate::seams::vnow_ms(), "oracle": og.summary(), "nontrivial": interleaved > 0,
                "event_seq": og.trace_len, "stats": stats,
                "faults_fired": {"scan_inside_apply": stats["scans_inside_apply"], "apply_inside_scan": stats["applies_inside_scan"]},
                "plan_summary": {"engine": plan.engine, "chunks": plan.chunks.len()},
                "sample": plan.chunks.iter().take(3).map(|c| format!("{c:?}")).collect::<Vec<_>>(),
            });
            if !og.violations.is_empty() {
                res["plan"] = serde_json::to_value(&plan).unwrap();
            }
            res
        })
        .unwrap()
        .join()
        .unwrap_or_else(|_| json!({"harness_error": "scansim thread panicked"}));
    let out = serde_json::to_string(&res).unwrap();
    if let Some(p) = kv.get("out") {
        std::fs::write(p, &out).unwrap();
    } else {
        eprintln!("RESULT {out}");
    }
    0
}

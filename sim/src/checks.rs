//! Structural invariants (while the run proceeds), liveness after the quiet period,
//! and history checks at the end of a cluster run.

use std::collections::{BTreeMap, BTreeSet, HashMap};
use std::time::Duration;

use bytes::Bytes;
use d_engine_core::client::{ClientResponsePayload, ClientWriteRequest, ErrorCode, WriteOperation};
use d_engine_core::{ClientCmd, Command, MaybeCloneOneshot, Membership, RaftLog, RaftOneshot};
use d_engine_proto::common::NodeRole;
use futures::FutureExt;
use serde_json::{Value, json};

use crate::clients::{HistOp, HistoryRef, Outcome};
use crate::lin::{self, LEvent, LOp, LinResult};
use crate::oracle::{ROLE_LEADER, ROLE_LEARNER};
use crate::plan::OpKind;
use crate::world::{WorldRef, payload_hash};

/// C04 log matching + gap-free logs, C05(b) committed prefix never shrinks within an
/// incarnation, C26 quorum intersection of concurrent views.
pub fn structural_checks(world: &WorldRef, prefix_ok: &mut HashMap<u32, (u64, u64)>) {
    let w = world.borrow();
    let mut logs: Vec<(u32, u64, Vec<d_engine_proto::common::Entry>)> = Vec::new();
    let mut views: Vec<(u32, Vec<u32>)> = Vec::new();
    for (id, n) in w.nodes.iter() {
        let Some(n) = n else { continue };
        let Some(cur) = &n.cur else { continue };
        let first = cur.raft_log.first_entry_id();
        let last = cur.raft_log.last_entry_id();
        let entries = if last > 0 { cur.raft_log.get_entries_range(first..=last).unwrap_or_default() } else { vec![] };
        // gap-free
        let mut expect = first;
        for e in &entries {
            if e.index != expect {
                w.oracle.lock().unwrap().violate(
                    "C04",
                    "log_gap",
                    json!({"node": id, "missing_index": expect, "next_present": e.index, "first": first, "last": last}),
                );
                // C08: a follower that accepted requests must keep a gap-free log
                let role = w.oracle.lock().unwrap().views.get(id).map(|v| v.role).unwrap_or(-1);
                if role != ROLE_LEADER {
                    w.oracle.lock().unwrap().violate(
                        "C08",
                        "follower_gap_after_accept",
                        json!({"node": id, "role": role, "missing_index": expect, "next_present": e.index, "first": first, "last": last}),
                    );
                }
                break;
            }
            expect += 1;
        }
        if last > 0 && expect != last + 1 && entries.last().map(|e| e.index) != Some(last) {
            w.oracle.lock().unwrap().violate("C04", "log_gap", json!({"node": id, "missing_index": expect, "first": first, "last": last}));
        }
        logs.push((*id, cur.inc, entries));
        // own membership view
        let members = cur.membership.members().now_or_never().unwrap_or_default();
        let me_learner = members.iter().any(|m| m.id == *id && m.role == NodeRole::Learner as i32);
        if !me_learner {
            let mut v: Vec<u32> = cur.membership.voters().now_or_never().unwrap_or_default().iter().map(|m| m.id).collect();
            v.push(*id);
            v.sort();
            v.dedup();
            views.push((*id, v));
        }
    }
    // C04 pairwise
    for i in 0..logs.len() {
        for j in (i + 1)..logs.len() {
            let (a, _, la) = &logs[i];
            let (b, _, lb) = &logs[j];
            if la.is_empty() || lb.is_empty() {
                continue;
            }
            let lo = la[0].index.max(lb[0].index);
            let hi = la[la.len() - 1].index.min(lb[lb.len() - 1].index);
            if lo > hi {
                continue;
            }
            let ma: std::collections::BTreeMap<u64, &d_engine_proto::common::Entry> = la.iter().map(|e| (e.index, e)).collect();
            let mb: std::collections::BTreeMap<u64, &d_engine_proto::common::Entry> = lb.iter().map(|e| (e.index, e)).collect();
            let common: Vec<u64> = (lo..=hi).filter(|x| ma.contains_key(x) && mb.contains_key(x)).collect();
            // highest common index with equal terms
            let top = common.iter().rev().find(|x| ma[x].term == mb[x].term).copied();
            if let Some(top) = top {
                for x in common.iter().filter(|x| **x <= top) {
                    let (p, q) = (ma[x], mb[x]);
                    if p.term != q.term || payload_hash(p) != payload_hash(q) {
                        w.oracle.lock().unwrap().violate(
                            "C04",
                            "log_mismatch",
                            json!({"a": a, "b": b, "index": x, "term_a": p.term, "term_b": q.term,
                                   "agree_at": top, "payload_equal": payload_hash(p) == payload_hash(q)}),
                        );
                        break;
                    }
                }
            }
        }
    }
    // C05(b): per node, the prefix of the commit ledger it holds never shrinks within an incarnation
    {
        let led = w.ledger.lock().unwrap();
        for (id, inc, entries) in logs.iter() {
            if entries.is_empty() {
                continue;
            }
            let first = entries[0].index;
            let mut matched = first.saturating_sub(1);
            for e in entries {
                match led.by_index.get(&e.index) {
                    Some(le) if le.term == e.term && le.hash == payload_hash(e) => matched = e.index,
                    _ => break,
                }
            }
            let prev = prefix_ok.get(id).copied();
            if let Some((pinc, pm)) = prev {
                if pinc == *inc && matched < pm {
                    // tolerated only if the node compacted (first moved past) — then matched >= first-1 >= pm
                    // cause attribution (known finding KF15): a "start from scratch" AppendEntries
                    // (prev 0,0) sent to this node at most 2 virtual seconds ago makes the follower
                    // reset() its log and keep only that request's (capped) entries: the log then
                    // starts at 1 and ends below what it held
                    let mut o = w.oracle.lock().unwrap();
                    let now = crate::oracle::vnow();
                    let since = o.prev_zero_sent.get(id).map(|t| now.saturating_sub(*t));
                    let by_reset = first == 1 && since.is_some_and(|d| d <= 2000);
                    if by_reset {
                        o.probe("log_reset_by_prev_zero_request_dropped_committed");
                    }
                    o.violate(
                        "C05",
                        "committed_entries_discarded",
                        json!({"node": id, "held_before": pm, "holds_now": matched, "log_first": first,
                               "log_last": entries[entries.len()-1].index,
                               "reset_by_prev_zero_request": by_reset, "prev_zero_request_sent_ms_ago": since}),
                    );
                }
            }
            prefix_ok.insert(*id, (*inc, matched.max(prev.filter(|p| p.0 == *inc).map(|p| p.1).unwrap_or(0).min(matched))));
            prefix_ok.insert(*id, (*inc, matched));
        }
    }
    // C26: any two voter views must not admit disjoint majorities
    for i in 0..views.len() {
        for j in (i + 1)..views.len() {
            let (na, a) = &views[i];
            let (nb, b) = &views[j];
            if a == b {
                continue;
            }
            w.oracle.lock().unwrap().probe("differing_voter_views");
            let inter = a.iter().filter(|x| b.contains(x)).count();
            let only_a = a.len() - inter;
            let only_b = b.len() - inter;
            let ma = a.len() / 2 + 1;
            let mb = b.len() / 2 + 1;
            let need = ma.saturating_sub(only_a) + mb.saturating_sub(only_b);
            if need <= inter {
                w.oracle.lock().unwrap().violate(
                    "C26",
                    "disjoint_quorums_possible",
                    json!({"node_a": na, "view_a": a, "node_b": nb, "view_b": b,
                           "size_diff": (a.len() as i64 - b.len() as i64).abs()}),
                );
            }
        }
    }
}

/// C32: after heal + quiet period a leader exists, a fresh write commits, live voters catch up.
pub async fn quiet_checks(world: &WorldRef, hist: &HistoryRef) -> Value {
    let (leader, up, voters_cfg) = {
        let w = world.borrow();
        let up = w.up_nodes();
        let o = w.oracle.lock().unwrap();
        let leader = o
            .views
            .iter()
            .filter(|(id, v)| v.role == ROLE_LEADER && v.up && up.contains(id))
            .max_by_key(|(_, v)| v.term)
            .map(|(id, v)| (*id, v.term));
        (leader, up, w.plan.voters.clone())
    };
    let oracle = world.borrow().oracle.clone();
    let mut out = json!({"leader": leader.map(|l| l.0), "up": up});
    let Some((lid, lterm)) = leader else {
        let views: Vec<Value> = {
            let o = oracle.lock().unwrap();
            o.views.iter().map(|(id, v)| json!({"node": id, "role": v.role, "term": v.term, "up": v.up})).collect()
        };
        // last log ids: a voter holding a longer (uncommitted) log than the others is the
        // enabling condition of a known election live-lock
        let lasts: Vec<(u32, u64, u64)> = {
            let w = world.borrow();
            w.nodes
                .iter()
                .filter_map(|(id, n)| n.as_ref().and_then(|n| n.cur.as_ref()).map(|c| {
                    let l = c.raft_log.last_log_id().unwrap_or(d_engine_proto::common::LogId { index: 0, term: 0 });
                    (*id, l.index, l.term)
                }))
                .collect()
        };
        let distinct: BTreeSet<(u64, u64)> = lasts.iter().map(|l| (l.1, l.2)).collect();
        oracle.lock().unwrap().violate(
            "C32",
            "no_leader_after_quiet",
            json!({"up": up, "views": views, "last_log_ids": lasts, "voters_logs_differ": distinct.len() > 1}),
        );
        return out;
    };
    // fresh write through the leader
    let cmd_tx = {
        let w = world.borrow();
        w.nodes.get(&lid).and_then(|n| n.as_ref()).and_then(|n| n.cur.as_ref()).map(|c| c.cmd_tx.clone())
    };
    let mut committed = false;
    if let Some(cmd_tx) = cmd_tx {
        for attempt in 0..3 {
            let req = ClientWriteRequest {
                client_id: 999,
                command: Some(WriteOperation::Insert {
                    key: Bytes::from("liveness"),
                    value: Bytes::from(format!("probe-{attempt}")),
                    ttl_secs: None,
                }),
            };
            let (tx, rx) = MaybeCloneOneshot::new();
            if cmd_tx.send(ClientCmd::Propose(req, tx)).await.is_err() {
                break;
            }
            if let Ok(Ok(Ok(r))) = tokio::time::timeout(Duration::from_secs(5), rx).await {
                if r.error == ErrorCode::Success {
                    committed = true;
                    break;
                }
            }
            tokio::time::sleep(Duration::from_millis(500)).await;
            // The property asks that the write is accepted and commits. With a server-side deadline
            // (general_raft_timeout, drawn down to 50 ms) shorter than one replication round trip the
            // answer is a timeout although the entry commits a moment later: judge by the commit ledger.
            let val = format!("probe-{attempt}");
            let in_ledger = {
                let w = world.borrow();
                let led = w.ledger.lock().unwrap();
                led.by_index.values().rev().take(16).any(|le| {
                    d_engine_core::decode_entries(vec![le.entry.clone()]).ok().and_then(|mut x| x.pop()).is_some_and(|a| match a.command {
                        Command::Insert { value, .. } => value == val.as_bytes(),
                        _ => false,
                    })
                })
            };
            if in_ledger {
                committed = true;
                oracle.lock().unwrap().probe("fresh_write_committed_but_answered_late");
                break;
            }
        }
    }
    out["fresh_write"] = json!(committed);
    if !committed {
        oracle.lock().unwrap().violate("C32", "write_not_committed_after_quiet", json!({"leader": lid, "term": lterm}));
        return out;
    }
    // C10/C11: final linearizable read of every key through the leader (an acknowledged write that was
    // lost and never overwritten shows up here as a non-linearizable history)
    {
        let (cmd_tx, nkeys, inc) = {
            let w = world.borrow();
            let c = w.nodes.get(&lid).and_then(|n| n.as_ref()).and_then(|n| n.cur.as_ref());
            (c.map(|c| c.cmd_tx.clone()), w.plan.keys, c.map(|c| c.inc).unwrap_or(0))
        };
        if let Some(cmd_tx) = cmd_tx {
            for k in 0..nkeys {
                let key = crate::clients::key_name(k);
                let id = {
                    let mut h = hist.borrow_mut();
                    h.next_id += 1;
                    h.next_id
                };
                let mut rec = HistOp {
                    id,
                    client: 999,
                    kind: OpKind::ReadLin,
                    keys: vec![key.clone()],
                    value: None,
                    expected: None,
                    ttl: None,
                    node: lid,
                    node_inc: inc,
                    path: 0,
                    policy: Some(1),
                    invoke_seq: crate::oracle::next_event_seq(),
                    invoke_ms: crate::seams::vnow_ms(),
                    ret_seq: 0,
                    ret_ms: 0,
                    outcome: Outcome::Indeterminate("final_read_failed".into()),
                    node_died: false,
                    apply_lag_at_ret: 0,
                    marker: None,
                    marker_present: false,
                };
                let req = d_engine_core::client::ClientReadRequest {
                    client_id: 999,
                    keys: vec![Bytes::from(key.clone())],
                    consistency_policy: Some(d_engine_core::ReadConsistencyPolicy::LinearizableRead),
                };
                let (tx, rx) = MaybeCloneOneshot::new();
                if cmd_tx.send(ClientCmd::Read(req, tx)).await.is_ok() {
                    if let Ok(Ok(Ok(r))) = tokio::time::timeout(Duration::from_secs(5), rx).await {
                        if r.error == ErrorCode::Success {
                            if let Some(ClientResponsePayload::Read(rr)) = r.result {
                                let v = rr.entries.iter().find(|e| e.key.as_ref() == key.as_bytes()).map(|e| String::from_utf8_lossy(&e.value).to_string());
                                rec.outcome = Outcome::ReadOk(vec![v]);
                                oracle.lock().unwrap().probe("final_linearizable_read_ok");
                            }
                        }
                    }
                }
                rec.ret_seq = crate::oracle::next_event_seq();
                rec.ret_ms = crate::seams::vnow_ms();
                hist.borrow_mut().ops.push(rec);
            }
        }
    }
    tokio::time::sleep(Duration::from_secs(3)).await;
    // every live voter (per the leader's membership) applied up to the leader's commit index
    let w = world.borrow();
    let commit = oracle.lock().unwrap().views.get(&lid).map(|v| v.commit_index).unwrap_or(0);
    let leader_voters: Vec<u32> = w
        .nodes
        .get(&lid)
        .and_then(|n| n.as_ref())
        .and_then(|n| n.cur.as_ref())
        .map(|c| c.membership.voters().now_or_never().unwrap_or_default().iter().map(|m| m.id).collect())
        .unwrap_or_default();
    let _ = voters_cfg;
    for id in leader_voters.iter().chain(std::iter::once(&lid)) {
        let Some(Some(n)) = w.nodes.get(id) else { continue };
        if !n.is_up() {
            continue;
        }
        let applied = n.sm_img.lock().unwrap().last_applied.0;
        if applied < commit {
            let cur = n.cur.as_ref().unwrap();
            let acked_max = {
                let o = oracle.lock().unwrap();
                o.acks.values().filter_map(|m| m.get(id)).copied().max().unwrap_or(0)
            };
            let lost_acked = acked_max > cur.raft_log.last_entry_id();
            oracle.lock().unwrap().violate(
                "C32",
                "voter_not_caught_up",
                json!({"node": id, "applied": applied, "commit": commit, "leader": lid,
                       "acked_before": acked_max, "lost_acknowledged_entries": lost_acked,
                       "restarts": n.inc_counter - 1, "last_down_kind": n.last_down_kind,
                       "configured_as_learner": w.plan.learners.contains(id),
                       "raft_loop_running": cur.running.load(std::sync::atomic::Ordering::SeqCst),
                       "log_first": cur.raft_log.first_entry_id(), "log_last": cur.raft_log.last_entry_id(),
                       "has_snapshot_meta": n.sm_img.lock().unwrap().snapshot_meta.is_some()}),
            );
            // C33 progress half: the peer is stuck behind the leader's purge boundary
            let leader_first = w.nodes.get(&lid).and_then(|n| n.as_ref()).and_then(|n| n.cur.as_ref()).map(|c| c.raft_log.first_entry_id()).unwrap_or(0);
            if leader_first > cur.raft_log.last_entry_id() + 1 {
                oracle.lock().unwrap().violate(
                    "C33",
                    "peer_stuck_behind_purge_boundary",
                    json!({"node": id, "leader": lid, "leader_log_first": leader_first, "peer_log_last": cur.raft_log.last_entry_id(),
                           "peer_applied": applied, "commit": commit, "peer_restarts": n.inc_counter - 1,
                           "lost_acknowledged_entries": lost_acked}),
                );
            }
        }
    }
    out["commit"] = json!(commit);
    out
}

fn val_id(ids: &mut HashMap<String, u32>, v: &str) -> u32 {
    let n = ids.len() as u32 + 1;
    *ids.entry(v.to_string()).or_insert(n)
}

/// Reference KV semantics for one command.
fn kv_apply(kv: &mut BTreeMap<Bytes, Bytes>, c: &Command) -> bool {
    match c {
        Command::Noop => true,
        Command::Insert { key, value, .. } => {
            kv.insert(key.clone(), value.clone());
            true
        }
        Command::Delete { key } => {
            kv.remove(key);
            true
        }
        Command::CompareAndSwap { key, expected, value } => {
            let cur = kv.get(key);
            let ok = match (cur, expected) {
                (Some(c), Some(e)) => c == e,
                (None, None) => true,
                _ => false,
            };
            if ok {
                kv.insert(key.clone(), value.clone());
            }
            ok
        }
    }
}

pub fn final_checks(world: &WorldRef, hist: &HistoryRef) -> Value {
    let w = world.borrow();
    let oracle = w.oracle.clone();
    let led = w.ledger.lock().unwrap();
    let h = hist.borrow();
    let mut stats = serde_json::Map::new();

    // decoded commit ledger
    let mut ledger_cmds: BTreeMap<u64, Command> = BTreeMap::new();
    for (idx, le) in led.by_index.iter() {
        if let Ok(mut v) = d_engine_core::decode_entries(vec![le.entry.clone()]) {
            if let Some(a) = v.pop() {
                ledger_cmds.insert(*idx, a.command);
            }
        }
    }

    // Was a snapshot whose label lags the state it contains installed anywhere in this run?
    let mut mislabelled: BTreeSet<u64> = BTreeSet::new();
    for n in w.nodes.values().flatten() {
        for s in n.sm_obs.lock().unwrap().snapshots.iter() {
            if s.kind == "generate" && s.label_index != s.last_applied_at_capture {
                mislabelled.insert(s.label_index);
            }
        }
    }
    let mut mislabelled_installed = false;
    for n in w.nodes.values().flatten() {
        for s in n.sm_obs.lock().unwrap().snapshots.iter() {
            if s.kind == "install" && mislabelled.contains(&s.label_index) {
                mislabelled_installed = true;
            }
        }
    }
    stats.insert("mislabelled_snapshot_installed".into(), json!(mislabelled_installed));

    // ── C06: apply ledger ──
    let mut apply_by_index: BTreeMap<u64, (Command, bool, u32)> = BTreeMap::new();
    // value -> (applied indexes)
    let mut value_applied: HashMap<String, BTreeSet<u64>> = HashMap::new();
    // (node, value) -> earliest apply seq on that node
    let mut node_value_seq: HashMap<(u32, String), (u64, bool, u64)> = HashMap::new();
    for (id, n) in w.nodes.iter() {
        let Some(n) = n else { continue };
        let obs = n.sm_obs.lock().unwrap();
        let mut last: Option<(u64, u64)> = None; // (inc, index)
        let mut seen: BTreeSet<u64> = BTreeSet::new();
        let installs: Vec<(u64, u64)> = obs.snapshots.iter().filter(|s| s.kind == "install").map(|s| (s.vtime_ms, s.label_index)).collect();
        for a in obs.applies.iter() {
            // order within an incarnation
            if let Some((inc, idx)) = last {
                if inc == a.inc && a.index != idx + 1 {
                    // a snapshot install legitimately moves the cursor
                    let jumped = installs.iter().any(|(_, li)| *li + 1 == a.index);
                    if !jumped {
                        let kind = if a.index <= idx { "apply_repeat" } else { "apply_gap" };
                        oracle.lock().unwrap().violate(
                            "C06",
                            kind,
                            json!({"node": id, "inc": a.inc, "expected": idx + 1, "got": a.index, "same_incarnation": true}),
                        );
                    }
                }
            }
            if !seen.insert(a.index) {
                let same_inc = last.is_some_and(|l| l.0 == a.inc);
                if !same_inc {
                    oracle.lock().unwrap().probe("apply_repeat_across_incarnation");
                }
                // MemSm persists last_applied atomically, so any repeat is the core's doing
                oracle.lock().unwrap().violate(
                    "C06",
                    "apply_repeat",
                    json!({"node": id, "index": a.index, "inc": a.inc, "same_incarnation": same_inc,
                           "mislabelled_snapshot_installed": mislabelled_installed}),
                );
            }
            last = Some((a.inc, a.index));
            // equality across nodes
            match apply_by_index.get(&a.index) {
                Some((c, ok, first_node)) => {
                    if *c != a.command || *ok != a.succeeded {
                        oracle.lock().unwrap().violate(
                            "C06",
                            "apply_differs",
                            json!({"index": a.index, "node_a": first_node, "node_b": id,
                                   "result_a": ok, "result_b": a.succeeded, "same_command": *c == a.command,
                                   "mislabelled_snapshot_installed": mislabelled_installed}),
                        );
                    }
                }
                None => {
                    apply_by_index.insert(a.index, (a.command.clone(), a.succeeded, *id));
                }
            }
            // applied ⊆ committed, and equal to the committed command (C06, C07, C37)
            match ledger_cmds.get(&a.index) {
                Some(c) if *c == a.command => {}
                Some(_) => {
                    oracle.lock().unwrap().violate("C06", "applied_differs_from_committed", json!({"node": id, "index": a.index}));
                }
                None => {
                    oracle.lock().unwrap().violate("C07", "applied_uncommitted_entry", json!({"node": id, "index": a.index, "term": a.term}));
                }
            }
            let val = match &a.command {
                Command::Insert { value, .. } | Command::CompareAndSwap { value, .. } => Some(String::from_utf8_lossy(value).to_string()),
                _ => None,
            };
            if let Some(v) = val {
                value_applied.entry(v.clone()).or_default().insert(a.index);
                node_value_seq.entry((*id, v)).or_insert((a.seq, a.succeeded, a.index));
            }
        }
        // state == KvModel(committed prefix up to last_applied)
        let img = n.sm_img.lock().unwrap();
        let la = img.last_applied.0;
        let snap_installed = !installs.is_empty();
        let complete = (1..=la).all(|i| ledger_cmds.contains_key(&i));
        if complete {
            let mut kv = BTreeMap::new();
            for i in 1..=la {
                kv_apply(&mut kv, &ledger_cmds[&i]);
            }
            let have: BTreeMap<Bytes, Bytes> = img.data.iter().map(|(k, (v, _))| (k.clone(), v.clone())).collect();
            if kv != have {
                let bad = kv
                    .iter()
                    .find(|(k, v)| have.get(*k) != Some(v))
                    .map(|(k, _)| k.clone())
                    .or_else(|| have.keys().find(|k| !kv.contains_key(*k)).cloned());
                oracle.lock().unwrap().violate(
                    "C06",
                    "state_not_prefix_image",
                    json!({"node": id, "last_applied": la, "first_bad_key": bad.map(|b| String::from_utf8_lossy(&b).to_string()),
                           "snapshot_installed": snap_installed, "mislabelled_snapshot_installed": mislabelled_installed}),
                );
            }
        } else {
            oracle.lock().unwrap().probe("state_image_not_checked_ledger_incomplete");
        }
        // C16: snapshot label must match the captured state
        for s in obs.snapshots.iter().filter(|s| s.kind == "generate") {
            oracle.lock().unwrap().probe("snapshot_created");
            if s.label_index != s.last_applied_at_capture {
                oracle.lock().unwrap().violate(
                    "C16",
                    "snapshot_label_mismatch",
                    json!({"engine": "mem", "node": id, "label": s.label_index, "captured_last_applied": s.last_applied_at_capture}),
                );
            }
        }
        for _ in installs.iter() {
            oracle.lock().unwrap().probe("snapshot_installed");
        }
    }
    stats.insert("applied_indexes".into(), json!(apply_by_index.len()));

    // ── history checks ──
    // attempts per written value
    let mut lin_events: HashMap<String, Vec<LEvent>> = HashMap::new();
    let mut ids: HashMap<String, u32> = HashMap::new();
    let mut n_lin_reads = 0u64;
    let mut lease_read_ids: BTreeSet<u64> = BTreeSet::new();
    // op id -> does the read have the shape of known findings KF10/KF11 (>= 5 voters and at least one
    // voter acknowledged the deposed leader within the lease window before the read)?
    let mut deposed_reads: BTreeMap<u64, bool> = BTreeMap::new();
    for op in h.ops.iter() {
        let is_write = matches!(op.kind, OpKind::Put | OpKind::PutTtl | OpKind::Delete | OpKind::Cas(_));
        // C37: applied command equals the submitted operation
        if let Some(v) = &op.value {
            if let Some(idxs) = value_applied.get(v) {
                for idx in idxs {
                    let (cmd, _, _) = &apply_by_index[idx];
                    let key = Bytes::from(op.keys[0].clone());
                    let okc = match (&op.kind, cmd) {
                        (OpKind::Put, Command::Insert { key: k, value, ttl_secs }) => *k == key && value == v.as_bytes() && ttl_secs.is_none(),
                        (OpKind::PutTtl, Command::Insert { key: k, value, ttl_secs }) => *k == key && value == v.as_bytes() && *ttl_secs == op.ttl,
                        (OpKind::Cas(_), Command::CompareAndSwap { key: k, expected, value }) => {
                            let exp = op.expected.clone().flatten().map(Bytes::from);
                            *k == key && value == v.as_bytes() && *expected == exp
                        }
                        _ => false,
                    };
                    if !okc {
                        oracle.lock().unwrap().violate("C37", "applied_command_differs_from_submitted", json!({"op": op.id, "index": idx}));
                    }
                }
                // C14 / exactly-once: one submission is applied at most once
                if idxs.len() > 1 {
                    oracle.lock().unwrap().violate(
                        "C14",
                        "write_applied_more_than_accepted",
                        json!({"op": op.id, "value": v, "indexes": idxs, "outcome": format!("{:?}", op.outcome)}),
                    );
                }
            }
        }
        match &op.outcome {
            Outcome::Rejected(reason) => {
                if let Some(v) = &op.value {
                    if value_applied.contains_key(v) {
                        oracle.lock().unwrap().violate(
                            "C14",
                            "rejected_write_applied",
                            json!({"op": op.id, "rejection": reason, "value": v, "node": op.node,
                                   "index": value_applied[v].iter().next()}),
                        );
                    }
                }
                oracle.lock().unwrap().probe("write_or_read_rejected");
            }
            Outcome::Unresolved(kind) => {
                if !op.node_died {
                    let (cand, stepdown, role_at_invoke) = {
                        let o = oracle.lock().unwrap();
                        let mut role_at_invoke = -1;
                        let mut cand = false;
                        let mut stepdown = false;
                        let mut prev_role = -1;
                        for (t, n, r, _) in o.role_events.iter() {
                            if *n != op.node {
                                continue;
                            }
                            if *t <= op.invoke_ms {
                                role_at_invoke = *r;
                            } else if *t <= op.ret_ms {
                                if *r == crate::oracle::ROLE_CANDIDATE {
                                    cand = true;
                                }
                                if prev_role == ROLE_LEADER && *r != ROLE_LEADER {
                                    stepdown = true;
                                }
                            }
                            prev_role = *r;
                        }
                        if role_at_invoke == crate::oracle::ROLE_CANDIDATE {
                            cand = true;
                        }
                        (cand, stepdown, role_at_invoke)
                    };
                    let committed = op.value.as_ref().is_some_and(|v| {
                        led.by_index.values().any(|le| {
                            d_engine_core::decode_entries(vec![le.entry.clone()]).ok().and_then(|mut x| x.pop()).is_some_and(|a| match a.command {
                                Command::Insert { value, .. } | Command::CompareAndSwap { value, .. } => value == v.as_bytes(),
                                _ => false,
                            })
                        })
                    });
                    // cause attribution (KF19): the leader's expiry sweeps run only in tick(), and the tick deadline is the
                    // replication timer, which every AppendEntries send pushes out: under steady replication traffic
                    // (gaps shorter than the heartbeat interval) no tick fires for the whole wait
                    let tick_starved = {
                        let o = oracle.lock().unwrap();
                        let hb = w.plan.knobs.heartbeat_ms;
                        let sends: Vec<u64> = o.ae_send_times.get(&op.node).map(|v| v.iter().copied().filter(|t| *t + hb >= op.invoke_ms && *t <= op.ret_ms).collect()).unwrap_or_default();
                        let mut max_gap = 0u64;
                        let mut prev = op.invoke_ms.min(sends.first().copied().unwrap_or(op.invoke_ms));
                        for t in sends.iter() {
                            max_gap = max_gap.max(t.saturating_sub(prev));
                            prev = *t;
                        }
                        max_gap = max_gap.max(op.ret_ms.saturating_sub(prev).saturating_sub(250));
                        !sends.is_empty() && max_gap < hb && role_at_invoke == ROLE_LEADER && !stepdown
                    };
                    oracle.lock().unwrap().violate(
                        "C30",
                        kind,
                        json!({"op": op.id, "kind": format!("{:?}", op.kind), "node": op.node, "path": op.path,
                               "tick_starved_by_replication_traffic": tick_starved,
                               "invoke_ms": op.invoke_ms, "waited_ms": op.ret_ms - op.invoke_ms,
                               "role_at_invoke": role_at_invoke, "candidate_during_wait": cand,
                               "stepdown_during_wait": stepdown, "is_write": is_write, "entry_committed": committed,
                               "apply_lagging_at_return": op.apply_lag_at_ret > 0}),
                    );
                } else {
                    oracle.lock().unwrap().probe("unresolved_but_node_died");
                }
            }
            Outcome::WriteOk(cas) if is_write => {
                // C10/C29: an acknowledged write was committed and applied on the answering node before the reply
                if let Some(v) = &op.value {
                    match node_value_seq.get(&(op.node, v.clone())) {
                        Some((seq, succeeded, idx)) => {
                            if *seq > op.ret_seq {
                                oracle.lock().unwrap().violate(
                                    "C29",
                                    "success_before_commit_or_apply",
                                    json!({"op": op.id, "index": idx, "apply_seq": seq, "reply_seq": op.ret_seq}),
                                );
                            }
                            // C10 direct form: the acknowledged write's entry is still what every live
                                            // node holds at that index at the end of the run (unless compacted)
                            for (nid, n) in w.nodes.iter() {
                                let Some(cur) = n.as_ref().and_then(|n| n.cur.as_ref()) else { continue };
                                let first = cur.raft_log.first_entry_id();
                                let last = cur.raft_log.last_entry_id();
                                if first == 0 || *idx < first || *idx > last {
                                    continue;
                                }
                                let have = cur.raft_log.entry(*idx).ok().flatten();
                                let same = have.as_ref().is_some_and(|e| {
                                    d_engine_core::decode_entries(vec![e.clone()]).ok().and_then(|mut x| x.pop()).is_some_and(|a| match a.command {
                                        Command::Insert { value, .. } | Command::CompareAndSwap { value, .. } => value == v.as_bytes(),
                                        _ => false,
                                    })
                                });
                                if !same {
                                    let commit = oracle.lock().unwrap().views.get(nid).map(|x| x.commit_index).unwrap_or(0);
                                    // an uncommitted divergent tail on a lagging node is legal; what counts is the committed part
                                    if *idx <= commit {
                                        oracle.lock().unwrap().violate(
                                            "C10",
                                            "acked_write_lost",
                                            json!({"op": op.id, "value": v, "index": idx, "acked_by": op.node, "node": nid,
                                                   "node_has_term": have.map(|e| e.term), "node_commit": commit}),
                                        );
                                    }
                                }
                            }
                            if let Some(c) = cas {
                                if c != succeeded {
                                    oracle.lock().unwrap().violate(
                                        "C29",
                                        "cas_outcome_misreported",
                                        json!({"op": op.id, "index": idx, "applied": succeeded, "replied": c}),
                                    );
                                }
                            }
                        }
                        None => {
                            let anywhere = value_applied.get(v).is_some();
                            oracle.lock().unwrap().violate(
                                if anywhere { "C29" } else { "C10" },
                                if anywhere { "success_before_commit_or_apply" } else { "acked_write_not_committed" },
                                json!({"op": op.id, "value": v, "node": op.node, "applied_elsewhere": anywhere}),
                            );
                        }
                    }
                }
            }
            _ => {}
        }
        // C13: a non-leader never serves linearizable/lease reads from local state
        if let Outcome::ReadOk(vals) = &op.outcome {
            // C35: one result per requested key, in order
            if vals.len() != op.keys.len() {
                oracle.lock().unwrap().violate("C35", "multiread_misaligned", json!({"op": op.id, "keys": op.keys, "got": vals}));
            }
            if op.keys.len() > 1 {
                oracle.lock().unwrap().probe("multiread_ok");
                for (i, k) in op.keys.iter().enumerate() {
                    if k == "never-written" && vals.get(i).is_some_and(|v| v.is_some()) {
                        oracle.lock().unwrap().violate("C35", "multiread_misaligned", json!({"op": op.id, "keys": op.keys, "got": vals}));
                    }
                    // duplicates must agree
                    for (j, k2) in op.keys.iter().enumerate() {
                        if j > i && k2 == k && vals.get(i) != vals.get(j) {
                            oracle.lock().unwrap().violate("C35", "multiread_misaligned", json!({"op": op.id, "keys": op.keys, "got": vals}));
                        }
                    }
                }
            }
        }
        // ── C13: read policy routing (routing scenario: every read carries a marker key) ──
        if let (Some(marker), true) = (&op.marker, matches!(op.kind, OpKind::ReadLin | OpKind::ReadLease | OpKind::ReadEventual | OpKind::ReadDefault | OpKind::MultiRead)) {
            let dp = w.plan.knobs.default_policy;
            let allow = w.plan.knobs.allow_override;
            let eff = match (op.policy, allow) {
                (Some(p), true) => p,
                _ => dp,
            };
            let overridden = !allow && op.policy.is_some_and(|p| p != dp);
            // the state-machine read that produced this answer: the last read on that node that
            // carried this operation's marker key
            let served: Option<crate::sm::ReadRecord> = w
                .nodes
                .get(&op.node)
                .and_then(|n| n.as_ref())
                .and_then(|n| {
                    let obs = n.sm_obs.lock().unwrap();
                    obs.read_log.iter().filter(|r| r.keys.iter().any(|k| k.as_ref() == marker.as_bytes())).last().cloned()
                });
            // role of the node over the whole window of the operation
            let (was_leader_in_window, stable_nonleader) = {
                let o = oracle.lock().unwrap();
                let mut role_before = -1;
                let mut leader = false;
                let mut changes = 0;
                for (t, n, r, _) in o.role_events.iter() {
                    if *n != op.node {
                        continue;
                    }
                    if *t < op.invoke_ms {
                        role_before = *r;
                    } else if *t <= op.ret_ms {
                        changes += 1;
                        if *r == ROLE_LEADER {
                            leader = true;
                        }
                    }
                }
                if role_before == ROLE_LEADER {
                    leader = true;
                }
                (leader, !leader && changes == 0 && (role_before == crate::oracle::ROLE_FOLLOWER || role_before == ROLE_LEARNER))
            };
            let pname = |p: u8| match p { 0 => "lease", 1 => "linearizable", _ => "eventual" };
            let pathname = match op.path { 0 => "raw_cmd", 1 => "embedded", _ => "grpc_handler" };
            match &op.outcome {
                Outcome::ReadOk(_) => {
                    oracle.lock().unwrap().probe("c13_read_ok");
                    if op.marker_present {
                        oracle.lock().unwrap().violate("C35", "multiread_misaligned", json!({"op": op.id, "marker_key_has_value": true}));
                    }
                    let tag = served.as_ref().map(|r| r.tag).unwrap_or("none");
                    if served.is_some() {
                        oracle.lock().unwrap().probe(&format!("c13_served_{tag}_{}", pname(eff)));
                    }
                    if eff != 2 {
                        // effective policy is strong: only a leader may answer from local state
                        let role_at_read = served.as_ref().map(|r| r.role);
                        let nonleader = !was_leader_in_window || role_at_read.is_some_and(|r| r != ROLE_LEADER && r != -1);
                        if nonleader && !op.node_died {
                            let kind = if overridden { "override_ignored" } else { "nonleader_served_strong_read" };
                            oracle.lock().unwrap().violate(
                                "C13",
                                kind,
                                json!({"node": op.node, "role_at_read": role_at_read, "default": pname(dp), "requested": op.policy.map(pname),
                                       "effective": pname(eff), "allow_override": allow, "path": pathname, "served_via": tag,
                                       "fast_path": tag != "core", "op": op.id}),
                            );
                        } else if let Some(r) = &served {
                            // a leader answered; was it under the effective policy?
                            let fast = r.tag != "core";
                            if eff == 1 && fast {
                                // linearizable reads are only ever served by the Raft loop after a leadership check
                                let kind = if overridden { "override_ignored" } else { "linearizable_read_served_by_fast_path" };
                                oracle.lock().unwrap().violate(
                                    "C13",
                                    kind,
                                    json!({"node": op.node, "role_at_read": r.role, "default": pname(dp), "requested": op.policy.map(pname),
                                           "effective": pname(eff), "allow_override": allow, "path": pathname, "served_via": r.tag,
                                           "fast_path": true, "lease_valid_at_read": r.lease_valid, "op": op.id}),
                                );
                            }
                            if eff == 0 && fast && r.lease_valid == Some(false) {
                                let kind = if overridden { "override_ignored" } else { "lease_policy_read_without_valid_lease" };
                                oracle.lock().unwrap().violate(
                                    "C13",
                                    kind,
                                    json!({"node": op.node, "role_at_read": r.role, "default": pname(dp), "requested": op.policy.map(pname),
                                           "effective": pname(eff), "allow_override": allow, "path": pathname, "served_via": r.tag,
                                           "fast_path": true, "lease_valid_at_read": false, "op": op.id}),
                                );
                            }
                        }
                    }
                }
                Outcome::Rejected(reason) if reason == "not_leader" => {
                    oracle.lock().unwrap().probe("c13_not_leader_rejection");
                    if eff == 2 && overridden && stable_nonleader && !op.node_died {
                        // the server default (eventual) lets any node answer; rejecting means the
                        // client's stronger policy was honoured although overrides are disallowed
                        oracle.lock().unwrap().violate(
                            "C13",
                            "override_ignored",
                            json!({"node": op.node, "default": pname(dp), "requested": op.policy.map(pname), "effective": pname(eff),
                                   "allow_override": allow, "path": pathname, "served_via": "rejected_not_leader", "fast_path": false, "op": op.id}),
                        );
                    }
                }
                other => {
                    // a stable follower/learner must tell the client it is not the leader
                    if eff != 2 && stable_nonleader && !op.node_died && !matches!(other, Outcome::Unresolved(_)) {
                        let running_whole_window = true;
                        if running_whole_window {
                            oracle.lock().unwrap().probe("c13_nonleader_strong_read_other_error");
                            if let Outcome::Indeterminate(msg) = other {
                                if !msg.contains("not ready") && !msg.contains("Unavailable") && !msg.contains("ConnectionTimeout") && !msg.contains("timed out") {
                                    oracle.lock().unwrap().violate(
                                        "C13",
                                        "nonleader_did_not_say_not_leader",
                                        json!({"node": op.node, "default": pname(dp), "requested": op.policy.map(pname), "effective": pname(eff),
                                               "path": pathname, "answer": msg, "op": op.id}),
                                    );
                                }
                            }
                        }
                    }
                }
            }
        }
        // linearizability events per key (single-key ops)
        // effective policy: the client's only if the server allows overrides, else the default
        let eff_policy: Option<u8> = match op.kind {
            OpKind::ReadLin | OpKind::ReadLease | OpKind::ReadEventual | OpKind::ReadDefault | OpKind::MultiRead => {
                let dp = w.plan.knobs.default_policy;
                Some(match (op.policy, w.plan.knobs.allow_override) {
                    (Some(p), true) => p,
                    _ => dp,
                })
            }
            _ => None,
        };
        let is_lease_eff = eff_policy == Some(0);
        let strong_read = matches!(eff_policy, Some(0) | Some(1)) && op.keys.len() == 1 && !matches!(op.kind, OpKind::MultiRead);
        if !(is_write || strong_read) {
            continue;
        }
        let key = op.keys[0].clone();
        let lop = match (&op.kind, &op.outcome) {
            (OpKind::Put | OpKind::PutTtl, Outcome::WriteOk(_) | Outcome::Indeterminate(_) | Outcome::Unresolved(_)) => {
                Some(LOp::Put(val_id(&mut ids, op.value.as_ref().unwrap())))
            }
            (OpKind::Delete, Outcome::WriteOk(_) | Outcome::Indeterminate(_) | Outcome::Unresolved(_)) => Some(LOp::Delete),
            (OpKind::Cas(_), o @ (Outcome::WriteOk(_) | Outcome::Indeterminate(_) | Outcome::Unresolved(_))) => {
                let exp = op.expected.clone().flatten().map(|e| val_id(&mut ids, &e));
                let outcome = if let Outcome::WriteOk(c) = o { *c } else { None };
                Some(LOp::Cas(exp, val_id(&mut ids, op.value.as_ref().unwrap()), outcome))
            }
            (OpKind::ReadLin | OpKind::ReadLease | OpKind::ReadEventual | OpKind::ReadDefault, Outcome::ReadOk(vals)) if strong_read => {
                n_lin_reads += 1;
                // direct oracle (C11/C12): the serving node must not already be deposed, i.e. no
                // node acted as leader of a higher term before this read was invoked
                {
                    let mut o = oracle.lock().unwrap();
                    let mut node_term = 0u64;
                    for (t, n, _r, term) in o.role_events.iter() {
                        if *n == op.node && *t <= op.ret_ms {
                            node_term = *term;
                        }
                    }
                    let newer = o
                        .leaders
                        .iter()
                        .filter(|(t, ev)| **t > node_term && ev.iter().any(|e| e.node != op.node && e.vtime_ms < op.invoke_ms))
                        .map(|(t, ev)| (*t, ev[0].node, ev[0].vtime_ms))
                        .next();
                    if let Some((nt, nl, at)) = newer {
                        // who acknowledged this node recently? (cause attribution)
                        let win = 2 * w.plan.knobs.lease_ms + w.plan.knobs.heartbeat_ms;
                        let from = op.invoke_ms.saturating_sub(win);
                        // fresh = the request the ACK answers was sent inside the window; late = the ACK was
                        // delivered inside the window but answers a request sent before it
                        let mut fresh_voters = 0u64;
                        let mut late_voters = 0u64;
                        let mut fresh_learners = 0u64;
                        let mut acker_voted_newer = false;
                        for ((l, f), times) in o.ack_times.iter() {
                            if *l != op.node {
                                continue;
                            }
                            let in_win: Vec<&(u64, u64)> = times.iter().filter(|(d, _)| *d >= from && *d <= op.ret_ms).collect();
                            if in_win.is_empty() {
                                continue;
                            }
                            let fresh = in_win.iter().any(|(_, sent)| *sent >= from);
                            if w.plan.voters.contains(f) {
                                if fresh {
                                    fresh_voters += 1;
                                } else {
                                    late_voters += 1;
                                }
                                // did this acker grant its vote in a newer term before the read returned?
                                if o.grants.iter().any(|((v, t), g)| v == f && *t > node_term && g.iter().any(|x| x.vtime_ms <= op.ret_ms)) {
                                    acker_voted_newer = true;
                                }
                            } else {
                                fresh_learners += 1;
                            }
                        }
                        let nv = w.plan.voters.len() as u64;
                        let majority_fresh = fresh_voters + 1 >= nv / 2 + 1;
                        // cause classes of the open known findings (DESIGN.md §8.1)
                        let cause = if fresh_voters >= 1 && !majority_fresh {
                            // a minority of fresh voter ACKs completed to a "quorum" by stale match_index values
                            "stale_match_index_completes_quorum"
                        } else if majority_fresh && acker_voted_newer {
                            // a real majority acknowledged recently, but one of them has since voted in a newer term
                            "recent_acker_voted_in_newer_term"
                        } else if fresh_voters == 0 && late_voters >= 1 {
                            // the ACK of a request sent long ago (delayed delivery) confirmed leadership / renewed the
                            // lease as if it answered the latest heartbeat
                            "late_ack_of_old_request"
                        } else {
                            "other"
                        };
                        deposed_reads.insert(op.id, cause != "other");
                        // C27: a learner's acknowledgement must not count toward a lease / read quorum
                        if fresh_voters == 0 && late_voters == 0 && fresh_learners >= 1 {
                            o.violate(
                                "C27",
                                "learner_ack_counted_for_read_or_lease_quorum",
                                json!({"node": op.node, "node_term": node_term, "newer_term": nt, "newer_leader": nl, "fresh_learner_acks": fresh_learners,
                                       "read_kind": if is_lease_eff { "lease" } else { "linearizable" }, "read_invoke_ms": op.invoke_ms}),
                            );
                        }
                        let (p, k) = if is_lease_eff { ("C12", "lease_read_while_deposed") } else { ("C11", "linearizable_read_by_deposed_leader") };
                        o.violate(
                            p,
                            k,
                            json!({"node": op.node, "node_term": node_term, "newer_term": nt, "newer_leader": nl,
                                   "newer_leader_since_ms": at, "read_invoke_ms": op.invoke_ms, "path": op.path,
                                   "voters": w.plan.voters.len(), "fresh_voter_acks": fresh_voters,
                                   "late_voter_acks": late_voters,
                                   "fresh_learner_acks": fresh_learners, "majority_fresh": majority_fresh,
                                   "acker_voted_newer": acker_voted_newer, "cause": cause}),
                        );
                    }
                }
                if is_lease_eff {
                    lease_read_ids.insert(op.id);
                }
                Some(LOp::Read(vals[0].as_ref().map(|v| val_id(&mut ids, v))))
            }
            _ => None,
        };
        if let Some(lop) = lop {
            let done = matches!(op.outcome, Outcome::WriteOk(_) | Outcome::ReadOk(_));
            lin_events.entry(key).or_default().push(LEvent {
                id: op.id,
                op: lop,
                invoke: op.invoke_seq,
                ret: if done { op.ret_seq } else { u64::MAX },
            });
        }
    }
    let mut lin_checked = 0u64;
    let mut lin_capped = 0u64;
    for (key, evs) in lin_events.iter() {
        // long histories: check a sliding sequence of windows is unsound; instead cap and report
        match lin::check(evs, None, 400_000) {
            LinResult::Ok => lin_checked += 1,
            LinResult::Capped => lin_capped += 1,
            LinResult::Violation => {
                lin_checked += 1;
                // attribute: which read kinds are in the history
                let reads: Vec<&HistOp> = h.ops.iter().filter(|o| o.keys.len() == 1 && o.keys[0] == *key).collect();
                let has_lease = reads.iter().any(|o| matches!(o.kind, OpKind::ReadLease) && matches!(o.outcome, Outcome::ReadOk(_)));
                let has_lin = reads.iter().any(|o| matches!(o.kind, OpKind::ReadLin) && matches!(o.outcome, Outcome::ReadOk(_)));
                // re-check without lease reads / without any reads to attribute the property
                let no_lease: Vec<LEvent> = evs.iter().filter(|e| !lease_read_ids.contains(&e.id)).cloned().collect();
                let no_reads: Vec<LEvent> = evs.iter().filter(|e| !matches!(e.op, LOp::Read(_))).cloned().collect();
                let prop = if lin::check(&no_reads, None, 400_000) == LinResult::Violation {
                    "C10"
                } else if lin::check(&no_lease, None, 400_000) == LinResult::Violation {
                    "C11"
                } else {
                    "C12"
                };
                let mini: Vec<Value> = reads
                    .iter()
                    .filter(|o| evs.iter().any(|e| e.id == o.id))
                    .map(|o| json!({"id": o.id, "kind": format!("{:?}", o.kind), "value": o.value, "expected": o.expected,
                                    "node": o.node, "path": o.path, "inv": o.invoke_seq, "ret": o.ret_seq,
                                    "inv_ms": o.invoke_ms, "ret_ms": o.ret_ms,
                                    "outcome": format!("{:?}", o.outcome)}))
                    .collect();
                oracle.lock().unwrap().violate(
                    prop,
                    if prop == "C10" { "nonlinearizable_writes" } else { "stale_read_nonlinearizable" },
                    json!({"key": key, "ops": mini.len(), "has_lease_reads": has_lease, "has_lin_reads": has_lin,
                           "read_served_by_deposed_leader": evs.iter().any(|e| deposed_reads.contains_key(&e.id)),
                           "all_deposed_reads_have_known_cause":
                               evs.iter().filter_map(|e| deposed_reads.get(&e.id)).all(|s| *s)
                               && evs.iter().any(|e| deposed_reads.contains_key(&e.id)),
                           "history": mini}),
                );
            }
        }
    }
    stats.insert("lin_keys_checked".into(), json!(lin_checked));
    stats.insert("lin_keys_capped".into(), json!(lin_capped));
    stats.insert("strong_reads_ok".into(), json!(n_lin_reads));

    // ── C31: leader notifications ──
    {
        let mut o = oracle.lock().unwrap();
        let notes = o.leader_notes.clone();
        let mut per_term: BTreeMap<u64, BTreeSet<u32>> = BTreeMap::new();
        let mut bogus: BTreeMap<u64, Vec<(u32, bool)>> = BTreeMap::new();
        for (node, list) in notes.iter() {
            for (_, n) in list.iter() {
                if let Some((l, t)) = n {
                    per_term.entry(*t).or_default().insert(*l);
                    let known = o.leaders.get(t).is_some_and(|v| v.iter().any(|e| e.node == *l));
                    if !known {
                        // was the notifier itself the (deposed) leader of the term it reports?
                        let by_term_leader = o.leaders.get(t).is_some_and(|v| v.iter().any(|e| e.node == *node));
                        o.violate(
                            "C31",
                            "notified_nonleader",
                            json!({"node": node, "leader": l, "term": t, "notifier_was_leader_of_that_term": by_term_leader}),
                        );
                        bogus.entry(*t).or_default().push((*node, by_term_leader));
                    }
                }
            }
        }
        for (t, ls) in per_term {
            if ls.len() > 1 {
                let only_by_deposed = bogus.get(&t).is_some_and(|b| !b.is_empty() && b.iter().all(|x| x.1))
                    && ls.len() == 2;
                o.violate(
                    "C31",
                    "two_leaders_notified",
                    json!({"term": t, "leaders": ls, "extra_leader_notified_only_by_deposed_term_leader": only_by_deposed}),
                );
            }
        }
    }
    Value::Object(stats)
}

//! C24: watcher tasks on the real WatchRegistry / WatchDispatcher of a node, and the per-watcher oracle
//! against that node's apply ledger.

use std::cell::RefCell;
use std::rc::Rc;
use std::time::Duration;

use bytes::Bytes;
use d_engine_core::Command;
use d_engine_core::watch::WatchEventType;
use serde::Serialize;
use serde_json::json;

use crate::oracle::ROLE_LEADER;
use crate::plan::WatchPlan;
use crate::world::WorldRef;

#[derive(Clone, Debug, Serialize)]
pub struct WEvent {
    pub vtime_ms: u64,
    /// "put" | "delete" | "canceled" | "progress"
    pub kind: &'static str,
    pub key: String,
    pub value: String,
    pub prev: Option<String>,
    pub revision: u64,
}

#[derive(Clone, Debug, Serialize)]
pub struct WatchLog {
    pub id: usize,
    pub node: u32,
    pub inc: u64,
    pub key: String,
    pub prefix: bool,
    pub prev_kv: bool,
    pub reg_ms: u64,
    /// applied index of the node at the instant of registration
    pub reg_applied: u64,
    pub events: Vec<WEvent>,
    /// "open" | "closed" (channel closed: node stopped or unregistered) | "dropped" (handle dropped by the plan)
    pub ended: &'static str,
    pub register_error: Option<String>,
}

pub type WatchLogs = Rc<RefCell<Vec<WatchLog>>>;

pub async fn run_watcher(world: WorldRef, logs: WatchLogs, idx: usize, plan: WatchPlan) {
    tokio::time::sleep(Duration::from_millis(plan.start_ms)).await;
    // pick the node
    let target = {
        let w = world.borrow();
        let up = w.up_nodes();
        let n_all = w.nodes.len() as u32;
        let leader = {
            let o = w.oracle.lock().unwrap();
            o.views.iter().filter(|(id, v)| v.role == ROLE_LEADER && v.up && up.contains(id)).max_by_key(|(_, v)| v.term).map(|(id, _)| *id)
        };
        let mut id = if plan.node == 0 { leader.unwrap_or(up.first().copied().unwrap_or(1)) } else { (plan.node - 1) % n_all.max(1) + 1 };
        if !up.contains(&id) {
            if up.is_empty() {
                return;
            }
            id = up[plan.node as usize % up.len()];
        }
        let Some(Some(n)) = w.nodes.get(&id) else { return };
        let Some(cur) = n.cur.as_ref() else { return };
        (id, cur.inc, cur.watch_registry.clone(), n.sm_img.clone())
    };
    let (node, inc, registry, img) = target;
    let key = crate::clients::key_name(plan.key);
    let (wkey, prefix) = if plan.prefix && key.starts_with('/') {
        // the '/'-terminated prefix of the key
        let p = &key[..key.rfind('/').unwrap() + 1];
        (p.to_string(), true)
    } else {
        (key.clone(), false)
    };
    // registration and the applied index are read in the same poll (no await in between)
    let reg_applied = img.lock().unwrap().last_applied.0;
    let handle = if prefix { registry.register_prefix(Bytes::from(wkey.clone()), plan.prev_kv) } else { registry.register(Bytes::from(wkey.clone()), plan.prev_kv) };
    let mut log = WatchLog {
        id: idx,
        node,
        inc,
        key: wkey,
        prefix,
        prev_kv: plan.prev_kv,
        reg_ms: crate::seams::vnow_ms(),
        reg_applied,
        events: Vec::new(),
        ended: "open",
        register_error: None,
    };
    let mut handle = match handle {
        Ok(h) => h,
        Err(e) => {
            log.register_error = Some(format!("{e}"));
            log.ended = "closed";
            logs.borrow_mut().push(log);
            return;
        }
    };
    let pos = {
        let mut l = logs.borrow_mut();
        l.push(log);
        l.len() - 1
    };
    let deadline = if plan.drop_after_ms > 0 { Some(tokio::time::Instant::now() + Duration::from_millis(plan.drop_after_ms)) } else { None };
    loop {
        // (a slow consumer stops dawdling once faults have stopped, so that an open stream is fully read
        // by the end of the quiet period)
        if plan.recv_delay_ms > 0 && !world.borrow().in_quiet {
            tokio::time::sleep(Duration::from_millis(plan.recv_delay_ms)).await;
        }
        let ev = match deadline {
            Some(d) => match tokio::time::timeout_at(d, handle.receiver_mut().recv()).await {
                Ok(x) => x,
                Err(_) => {
                    logs.borrow_mut()[pos].ended = "dropped";
                    break;
                }
            },
            None => handle.receiver_mut().recv().await,
        };
        let Some(ev) = ev else {
            logs.borrow_mut()[pos].ended = "closed";
            break;
        };
        let kind = match ev.event_type {
            WatchEventType::Put => "put",
            WatchEventType::Delete => "delete",
            WatchEventType::Canceled => "canceled",
            WatchEventType::Progress => "progress",
        };
        logs.borrow_mut()[pos].events.push(WEvent {
            vtime_ms: crate::seams::vnow_ms(),
            kind,
            key: String::from_utf8_lossy(&ev.key).to_string(),
            value: String::from_utf8_lossy(&ev.value).to_string(),
            prev: ev.prev_value.as_ref().map(|p| String::from_utf8_lossy(p).to_string()),
            revision: ev.revision,
        });
    }
    drop(handle);
}

/// Per-watcher oracle against the apply ledger of the watched node incarnation.
pub fn check_watchers(world: &WorldRef, logs: &WatchLogs) {
    let w = world.borrow();
    let oracle = w.oracle.clone();
    for log in logs.borrow().iter() {
        let mut o = oracle.lock().unwrap();
        o.probe("watcher_registered");
        if log.register_error.is_some() {
            continue;
        }
        let Some(Some(n)) = w.nodes.get(&log.node) else { continue };
        let obs = n.sm_obs.lock().unwrap();
        // expected: matching mutations applied on that node incarnation after registration, in apply order
        let matches = |k: &Bytes| if log.prefix { k.starts_with(log.key.as_bytes()) } else { k.as_ref() == log.key.as_bytes() };
        let mut expected: Vec<(u64, &'static str, String)> = Vec::new();
        let mut failed_cas: Vec<u64> = Vec::new();
        for a in obs.applies.iter().filter(|a| a.inc == log.inc && a.index > log.reg_applied) {
            match &a.command {
                Command::Insert { key, value, .. } if matches(key) => expected.push((a.index, "put", String::from_utf8_lossy(value).to_string())),
                Command::Delete { key } if matches(key) => expected.push((a.index, "delete", String::new())),
                Command::CompareAndSwap { key, value, .. } if matches(key) => {
                    if a.succeeded {
                        expected.push((a.index, "put", String::from_utf8_lossy(value).to_string()));
                    } else {
                        failed_cas.push(a.index);
                    }
                }
                _ => {}
            }
        }
        let wit = |extra: serde_json::Value| {
            let mut v = json!({"watcher": log.id, "node": log.node, "key": log.key, "prefix": log.prefix, "prev_kv": log.prev_kv,
                               "registered_at_applied": log.reg_applied, "ended": log.ended, "events_received": log.events.len(),
                               "watch_queue": w.plan.knobs.watch_queue, "watch_buf": w.plan.knobs.watch_buf});
            if let (Some(a), Some(b)) = (v.as_object_mut(), extra.as_object()) {
                for (k, x) in b {
                    a.insert(k.clone(), x.clone());
                }
            }
            v
        };
        // walk the received stream
        let mut last_rev = 0u64;
        let mut canceled = false;
        let mut max_progress = 0u64;
        let mut data: Vec<&WEvent> = Vec::new();
        for ev in log.events.iter() {
            if canceled {
                o.violate("C24", "event_after_cancel", wit(json!({"event": ev})));
                break;
            }
            match ev.kind {
                "canceled" => {
                    canceled = true;
                    o.probe("watcher_canceled");
                }
                "progress" => {
                    o.probe("watch_progress_event");
                    max_progress = max_progress.max(ev.revision);
                }
                _ => {
                    let m = if log.prefix { ev.key.as_bytes().starts_with(log.key.as_bytes()) } else { ev.key == log.key };
                    if !m {
                        o.violate("C24", "event_not_matching_key", wit(json!({"event": ev})));
                    }
                    if ev.revision <= last_rev {
                        let kind = if ev.revision == last_rev { "duplicate_event" } else { "revision_not_increasing" };
                        o.violate("C24", kind, wit(json!({"event": ev, "previous_revision": last_rev})));
                    }
                    if ev.revision <= max_progress && max_progress > 0 {
                        o.violate("C24", "data_event_at_or_below_progress", wit(json!({"event": ev, "progress_revision": max_progress})));
                    }
                    if failed_cas.contains(&ev.revision) {
                        o.violate("C24", "event_for_failed_cas", wit(json!({"event": ev})));
                    }
                    last_rev = last_rev.max(ev.revision);
                    data.push(ev);
                }
            }
        }
        // gap-freedom since registration: the data events above the registration point are a prefix of `expected`
        let after: Vec<&&WEvent> = data.iter().filter(|e| e.revision > log.reg_applied).collect();
        let mut missing: Vec<u64> = Vec::new();
        let mut wrong: Option<serde_json::Value> = None;
        let mut ei = 0usize;
        for ev in after.iter() {
            // skip expected entries that were not delivered before this one (gaps)
            while ei < expected.len() && expected[ei].0 < ev.revision {
                missing.push(expected[ei].0);
                ei += 1;
            }
            if ei < expected.len() && expected[ei].0 == ev.revision {
                let (_, kind, val) = &expected[ei];
                if *kind != ev.kind || (*kind == "put" && *val != ev.value) {
                    wrong = Some(json!({"revision": ev.revision, "expected_kind": kind, "expected_value": val, "got": ev}));
                }
                ei += 1;
            } else {
                // an event for a revision that is no applied matching mutation on this node
                o.violate("C24", "event_not_an_applied_change", wit(json!({"event": ev})));
            }
        }
        if let Some(wv) = wrong {
            o.violate("C24", "event_differs_from_applied_change", wit(wv));
        }
        // a stream that is still open at the end of the run (after the quiet period) must be complete
        if log.ended == "open" && !canceled {
            while ei < expected.len() {
                missing.push(expected[ei].0);
                ei += 1;
            }
        }
        if !missing.is_empty() {
            o.probe("watcher_missed_events");
            // cause attribution: did other watchers of the same node incarnation miss the same revisions
            // (events lost before the per-watcher channels: the broadcast queue between apply and the dispatcher)?
            o.violate(
                "C24",
                "silent_gap",
                wit(json!({"missing_revisions": missing.iter().take(12).collect::<Vec<_>>(), "missing_count": missing.len(),
                           "canceled_later": canceled, "expected_since_registration": expected.len(),
                           "burst_larger_than_broadcast_queue": missing.len() >= 1 && w.plan.knobs.watch_queue < 10240})),
            );
        } else if !expected.is_empty() {
            o.probe("watcher_stream_gap_free");
        }
        if !data.is_empty() {
            o.probe_n("watch_data_events", data.len() as u64);
        }
    }
}

//! C17 `snapsim`: a real snapshot produced by the real state machine handler of a "leader" is streamed - pristine
//! or with one injected fault - into the real `apply_snapshot_stream_from_leader` of a "follower" that already
//! holds state and an older snapshot. Oracle (all-or-nothing): afterwards the follower's state, applied index,
//! snapshot metadata and the final-named files of its snapshot directory are either untouched or - only for a
//! complete, in-order, uncorrupted stream from one leader and term - exactly the leader's snapshot.

use std::collections::{BTreeMap, HashMap};
use std::path::{Path, PathBuf};
use std::sync::atomic::AtomicUsize;
use std::sync::{Arc, Mutex};
use std::time::Duration;

use bytes::Bytes;
use d_engine_core::{ApplyEntry, Command, DefaultStateMachineHandler, LogSizePolicy, SnapshotConfig, StateMachine, StateMachineHandler};
use d_engine_proto::server::storage::{SnapshotAck, SnapshotChunk};
use futures::StreamExt;
use serde::{Deserialize, Serialize};
use serde_json::{Value, json};
use tokio::sync::mpsc;

use crate::node::MemT;
use crate::oracle::{Oracle, OracleRef};
use crate::rng::Rng;
use crate::sm::{MemSm, ObservedSm, SmImage, SmImageRef, SmObserver};

#[derive(Serialize, Deserialize, Clone, Debug, PartialEq)]
#[serde(tag = "m")]
pub enum Mutation {
    None,
    Drop { i: u32 },
    Duplicate { i: u32 },
    Swap { i: u32 },
    CorruptData { i: u32, byte: u32 },
    CorruptChecksum { i: u32 },
    ChangeLeaderId { i: u32 },
    ChangeLeaderTerm { i: u32 },
    NoMetadata,
    Truncate { keep: u32 },
    Stall { i: u32 },
    WrongTotal { delta: i32 },
    /// sender closes the stream and a second, complete stream of another snapshot follows immediately
    AbortThenOther { keep: u32 },
}

#[derive(Serialize, Deserialize, Clone, Debug)]
pub struct SnapPlan {
    pub seed: u64,
    pub leader_cmds: u32,
    pub follower_cmds: u32,
    pub follower_has_snapshot: bool,
    pub chunk_size: usize,
    pub retained: u64,
    pub mutation: Mutation,
}

pub fn gen_snap_plan(seed: u64) -> SnapPlan {
    let mut r = Rng::new(seed ^ 0x17_17);
    let chunk_size = *r.pick(&[16usize, 32, 64, 200]);
    let i = r.below(12) as u32;
    let mutation = match r.below(100) {
        0..=14 => Mutation::None,
        15..=24 => Mutation::Drop { i },
        25..=31 => Mutation::Duplicate { i },
        32..=39 => Mutation::Swap { i },
        40..=51 => Mutation::CorruptData { i, byte: r.below(200) as u32 },
        52..=58 => Mutation::CorruptChecksum { i },
        59..=64 => Mutation::ChangeLeaderId { i: i.max(1) },
        65..=70 => Mutation::ChangeLeaderTerm { i: i.max(1) },
        71..=75 => Mutation::NoMetadata,
        76..=85 => Mutation::Truncate { keep: i },
        86..=91 => Mutation::Stall { i },
        92..=96 => Mutation::WrongTotal { delta: if r.chance(1, 2) { 1 } else { -1 } },
        _ => Mutation::AbortThenOther { keep: i },
    };
    SnapPlan {
        seed,
        leader_cmds: r.range(4, 40) as u32,
        follower_cmds: r.range(0, 12) as u32,
        follower_has_snapshot: r.chance(1, 2),
        chunk_size,
        retained: *r.pick(&[1u64, 1, 2]),
        mutation,
    }
}

struct Side {
    img: SmImageRef,
    sm: Arc<ObservedSm<MemSm>>,
    smh: Arc<DefaultStateMachineHandler<MemT>>,
    cfg: SnapshotConfig,
}

async fn make_side(node: u32, root: &Path, chunk_size: usize, retained: u64) -> Side {
    let img: SmImageRef = Arc::new(Mutex::new(SmImage::default()));
    let obs = Arc::new(Mutex::new(SmObserver::default()));
    let sm = Arc::new(ObservedSm::new(MemSm::open(&img), node, &obs));
    sm.start().await.unwrap();
    let mut cfg = SnapshotConfig::default();
    cfg.snapshots_dir = root.join(format!("n{node}")).join("snapshots");
    cfg.chunk_size = chunk_size;
    cfg.retained_log_entries = retained;
    cfg.receive_chunk_timeout_in_sec = 2;
    std::fs::create_dir_all(&cfg.snapshots_dir).unwrap();
    let smh = Arc::new(DefaultStateMachineHandler::<MemT>::new(
        node,
        0,
        sm.clone(),
        cfg.clone(),
        LogSizePolicy::new(1_000_000, Duration::from_secs(0)),
        None,
        Arc::new(AtomicUsize::new(0)),
    ));
    Side { img, sm, smh, cfg }
}

async fn apply_n(side: &Side, r: &mut Rng, from: u64, n: u32, tag: &str) {
    let mut entries = Vec::new();
    for k in 0..n as u64 {
        let key = Bytes::from(format!("k{}", r.below(6)));
        let cmd = match r.below(10) {
            0..=6 => Command::Insert { key, value: Bytes::from(format!("{tag}-{}", from + k)), ttl_secs: None },
            7 => Command::Delete { key },
            _ => Command::CompareAndSwap { key, expected: None, value: Bytes::from(format!("{tag}-cas-{}", from + k)) },
        };
        entries.push(ApplyEntry { index: from + k, term: 1, command: cmd });
    }
    for ch in entries.chunks(5) {
        side.sm.apply_chunk(ch).await.unwrap();
    }
}

/// final-named files (not the assembler's temp files) of a snapshot directory: name -> (len, hash)
fn listing(dir: &Path) -> BTreeMap<String, (u64, u64)> {
    let mut out = BTreeMap::new();
    fn walk(base: &Path, d: &Path, out: &mut BTreeMap<String, (u64, u64)>) {
        let Ok(rd) = std::fs::read_dir(d) else { return };
        for e in rd.flatten() {
            let p = e.path();
            let rel = p.strip_prefix(base).unwrap().to_string_lossy().to_string();
            if p.is_dir() {
                walk(base, &p, out);
            } else {
                let data = std::fs::read(&p).unwrap_or_default();
                let h = data.iter().fold(0xcbf2_9ce4_8422_2325u64, |h, b| (h ^ *b as u64).wrapping_mul(0x100_0000_01b3));
                out.insert(rel, (data.len() as u64, h));
            }
        }
    }
    walk(dir, dir, &mut out);
    out
}

fn is_temp(name: &str) -> bool {
    name.contains("temp") || name.contains(".part") || name.contains("tmp")
}

async fn collect_chunks(side: &Side) -> Option<(d_engine_proto::server::storage::SnapshotMetadata, Vec<SnapshotChunk>)> {
    let (meta, _path) = side.smh.create_snapshot().await.ok()?;
    // what the node does after a snapshot was created
    let _ = side.sm.update_last_snapshot_metadata(&meta);
    let mut st = side.smh.load_snapshot_data(meta.clone()).await.ok()?;
    let mut v = Vec::new();
    while let Some(c) = st.next().await {
        v.push(c.ok()?);
    }
    Some((meta, v))
}

async fn run(plan: SnapPlan, root: &Path, o: OracleRef) -> Value {
    let mut r = Rng::new(plan.seed ^ 0xABCD);
    let leader = make_side(1, root, plan.chunk_size, plan.retained).await;
    let follower = make_side(2, root, plan.chunk_size, plan.retained).await;
    apply_n(&leader, &mut r, 1, plan.leader_cmds.max(plan.retained as u32 + 2), "L").await;
    if plan.follower_cmds > 0 {
        apply_n(&follower, &mut r, 1, plan.follower_cmds.max(plan.retained as u32 + 2), "F").await;
        if plan.follower_has_snapshot {
            let _ = collect_chunks(&follower).await;
        }
    }
    let Some((meta, mut chunks)) = collect_chunks(&leader).await else {
        return json!({"harness_error": "leader snapshot failed"});
    };
    let n_chunks = chunks.len() as u32;
    // what the snapshot contains (MemSm captures the state at generation time)
    let leader_state: BTreeMap<Bytes, Bytes> = leader.img.lock().unwrap().data.iter().map(|(k, (v, _))| (k.clone(), v.clone())).collect();
    // ── follower "before" image ──
    let before_img = follower.img.lock().unwrap().clone();
    let before_files = listing(&follower.cfg.snapshots_dir);

    // ── mutate ──
    let clamp = |i: u32| if n_chunks == 0 { 0 } else { i % n_chunks };
    let mut stall_before: Option<u32> = None;
    let mut second_stream: Option<Vec<SnapshotChunk>> = None;
    let mut effective = true; // does the mutation change the stream at all?
    match plan.mutation.clone() {
        Mutation::None => {}
        Mutation::Drop { i } => {
            chunks.remove(clamp(i) as usize);
        }
        Mutation::Duplicate { i } => {
            let c = chunks[clamp(i) as usize].clone();
            chunks.insert(clamp(i) as usize, c);
        }
        Mutation::Swap { i } => {
            if n_chunks >= 2 {
                let a = (clamp(i) as usize).min(n_chunks as usize - 2);
                chunks.swap(a, a + 1);
            } else {
                effective = false;
            }
        }
        Mutation::CorruptData { i, byte } => {
            let c = &mut chunks[clamp(i) as usize];
            let mut d = c.data.to_vec();
            if d.is_empty() {
                effective = false;
            } else {
                let p = byte as usize % d.len();
                d[p] ^= 0x5A;
                c.data = Bytes::from(d);
            }
        }
        Mutation::CorruptChecksum { i } => {
            let c = &mut chunks[clamp(i) as usize];
            let mut d = c.chunk_checksum.to_vec();
            if d.is_empty() {
                d = vec![1];
            } else {
                d[0] ^= 0xFF;
            }
            c.chunk_checksum = Bytes::from(d);
        }
        Mutation::ChangeLeaderId { i } => {
            if n_chunks >= 2 {
                let a = clamp(i).max(1) as usize;
                for c in chunks[a..].iter_mut() {
                    c.leader_id += 7;
                }
            } else {
                effective = false;
            }
        }
        Mutation::ChangeLeaderTerm { i } => {
            if n_chunks >= 2 {
                let a = clamp(i).max(1) as usize;
                for c in chunks[a..].iter_mut() {
                    c.leader_term += 1;
                }
            } else {
                effective = false;
            }
        }
        Mutation::NoMetadata => {
            chunks[0].metadata = None;
        }
        Mutation::Truncate { keep } => {
            let k = keep % n_chunks.max(1);
            chunks.truncate(k as usize);
        }
        Mutation::Stall { i } => stall_before = Some(clamp(i)),
        Mutation::WrongTotal { delta } => {
            for c in chunks.iter_mut() {
                c.total_chunks = (c.total_chunks as i64 + delta as i64).max(0) as u32;
            }
        }
        Mutation::AbortThenOther { keep } => {
            second_stream = Some(chunks.clone());
            let k = keep % n_chunks.max(1);
            chunks.truncate(k as usize);
        }
    }
    let pristine = plan.mutation == Mutation::None || !effective;

    // ── feed ──
    let feed = |chunks: Vec<SnapshotChunk>, stall_before: Option<u32>| {
        let smh = follower.smh.clone();
        let cfg = follower.cfg.clone();
        async move {
            let (tx, rx) = mpsc::channel::<SnapshotChunk>(64);
            let (ack_tx, mut ack_rx) = mpsc::channel::<SnapshotAck>(64);
            tokio::spawn(async move { while ack_rx.recv().await.is_some() {} });
            let sender = tokio::spawn(async move {
                for (k, c) in chunks.into_iter().enumerate() {
                    if stall_before == Some(k as u32) {
                        tokio::time::sleep(Duration::from_secs(5)).await;
                    }
                    if tx.send(c).await.is_err() {
                        break;
                    }
                    tokio::time::sleep(Duration::from_millis(1)).await;
                }
            });
            let res = smh.apply_snapshot_stream_from_leader(1, rx, ack_tx, &cfg).await;
            sender.abort();
            res
        }
    };
    let res1 = feed(chunks, stall_before).await;
    let mut accepted = res1.is_ok();
    let mut err = res1.as_ref().err().map(|e| format!("{e:?}"));
    let mut second_accepted = None;
    if let Some(s2) = second_stream {
        // the retry of the same snapshot after an aborted attempt must go through
        let r2 = feed(s2, None).await;
        second_accepted = Some(r2.is_ok());
        if r2.is_ok() {
            accepted = true;
        } else {
            err = r2.err().map(|e| format!("{e:?}"));
        }
    }

    // ── oracle ──
    let after_img = follower.img.lock().unwrap().clone();
    let after_files = listing(&follower.cfg.snapshots_dir);
    let after_state: BTreeMap<Bytes, Bytes> = after_img.data.iter().map(|(k, (v, _))| (k.clone(), v.clone())).collect();
    let before_state: BTreeMap<Bytes, Bytes> = before_img.data.iter().map(|(k, (v, _))| (k.clone(), v.clone())).collect();
    let label = meta.last_included.map(|l| l.index).unwrap_or(0);
    let untouched = after_state == before_state && after_img.last_applied == before_img.last_applied && after_img.snapshot_meta == before_img.snapshot_meta;
    let installed = after_state == leader_state && after_img.last_applied.0 == label && after_img.snapshot_meta.as_ref().map(|m| m.0) == Some(label);
    let final_before: BTreeMap<&String, &(u64, u64)> = before_files.iter().filter(|(n, _)| !is_temp(n)).collect();
    let final_after: BTreeMap<&String, &(u64, u64)> = after_files.iter().filter(|(n, _)| !is_temp(n)).collect();
    let new_final: Vec<String> = final_after.iter().filter(|(n, v)| final_before.get(*n) != Some(v)).map(|(n, _)| (*n).clone()).collect();
    let removed_final: Vec<String> = final_before.keys().filter(|n| !final_after.contains_key(*n)).map(|n| (*n).clone()).collect();
    let mut og = o.lock().unwrap();
    og.trace("snap", n_chunks as u64, accepted as u64, label);
    og.probe(&format!("mutation_{}", serde_json::to_value(&plan.mutation).unwrap()["m"].as_str().unwrap_or("?").to_lowercase()));
    og.probe(if accepted { "stream_accepted" } else { "stream_rejected" });
    let wit = |extra: Value| {
        let mut v = json!({"mutation": plan.mutation, "chunks": n_chunks, "accepted": accepted, "error": err, "second_stream_accepted": second_accepted,
                           "label": label, "follower_applied_before": before_img.last_applied.0, "follower_applied_after": after_img.last_applied.0,
                           "new_or_changed_final_files": new_final, "removed_final_files": removed_final});
        if let (Some(a), Some(b)) = (v.as_object_mut(), extra.as_object()) {
            for (k, x) in b {
                a.insert(k.clone(), x.clone());
            }
        }
        v
    };
    let complete_stream = pristine || matches!(plan.mutation, Mutation::AbortThenOther { .. });
    if complete_stream {
        if !accepted {
            og.violate("C17", "complete_stream_rejected", wit(json!({})));
        } else if !installed {
            og.violate("C17", "complete_stream_installed_wrong_state", wit(json!({"state_equals_leader": after_state == leader_state})));
        }
    } else {
        // a faulty stream: nothing may have changed - unless the receiver provably has the whole snapshot
        // (a duplicated chunk that was ignored), in which case the exact snapshot state is the only alternative
        let dup = matches!(plan.mutation, Mutation::Duplicate { .. });
        if !(untouched || (dup && installed)) {
            let what = if !(after_state == before_state) { "state" } else if after_img.last_applied != before_img.last_applied { "applied_index" } else { "snapshot_metadata" };
            og.violate("C17", "state_touched_by_failed_transfer", wit(json!({"what": what, "partially_installed": !installed})));
        }
        if untouched && (!new_final.is_empty() || !removed_final.is_empty()) {
            og.violate("C17", "final_snapshot_file_from_failed_transfer", wit(json!({})));
        }
        if accepted && !dup {
            og.violate("C17", "faulty_stream_accepted", wit(json!({"installed_exact_snapshot": installed})));
        }
    }
    json!({"chunks": n_chunks, "accepted": accepted, "label": label})
}

pub fn run_cli(seed: u64, kv: &HashMap<String, String>) -> i32 {
    let plan: SnapPlan = match kv.get("plan") {
        Some(p) => {
            let v: Value = serde_json::from_str(&std::fs::read_to_string(p).expect("read plan")).expect("json");
            serde_json::from_value(v.get("plan").cloned().unwrap_or(v)).expect("plan schema")
        }
        None => gen_snap_plan(seed),
    };
    let res = std::thread::Builder::new()
        .stack_size(64 << 20)
        .spawn(move || {
            crate::seams::enter_sim_thread(plan.seed);
            crate::seams::reset_time();
            crate::oracle::reset_event_seq();
            tokio::verif::reset();
            let root: PathBuf = crate::cluster::tmp_root();
            let _ = std::fs::remove_dir_all(&root);
            std::fs::create_dir_all(root.join("tmp")).unwrap();
            unsafe { std::env::set_var("TMPDIR", root.join("tmp")) };
            let rt = tokio::runtime::Builder::new_current_thread().enable_time().start_paused(true).build().unwrap();
            let o = Oracle::new(false);
            let o2 = o.clone();
            let p2 = plan.clone();
            let root2 = root.clone();
            let stats = rt.block_on(async move { run(p2, &root2, o2).await });
            drop(rt);
            let _ = std::fs::remove_dir_all(&root);
            let og = o.lock().unwrap();
            let mut res = json!({
                "seed": plan.seed, "scenario": "snapshot_stream", "vtime_ms": crate::seams::vnow_ms(), "oracle": og.summary(),
                "nontrivial": plan.mutation != Mutation::None, "event_seq": og.trace_len, "stats": stats,
                "faults_fired": {serde_json::to_value(&plan.mutation).unwrap()["m"].as_str().unwrap_or("?").to_lowercase(): 1},
                "plan_summary": {"mutation": plan.mutation, "chunk_size": plan.chunk_size, "leader_cmds": plan.leader_cmds},
                "sample": [format!("{:?}", plan.mutation)],
            });
            if let Some(e) = stats.get("harness_error") {
                res["harness_error"] = e.clone();
            }
            if !og.violations.is_empty() {
                res["plan"] = serde_json::to_value(&plan).unwrap();
            }
            res
        })
        .unwrap()
        .join()
        .unwrap_or_else(|_| json!({"harness_error": "snapsim thread panicked"}));
    let out = serde_json::to_string(&res).unwrap();
    if let Some(p) = kv.get("out") {
        std::fs::write(p, &out).unwrap();
    } else {
        eprintln!("RESULT {out}");
    }
    0
}

//! C36 `merge_equiv`: the same sequence of AppendEntries requests is delivered to two identical
//! real `Raft` followers - to one in bursts (the loop sees the whole burst queued, so
//! `Raft::merge_append_entries` merges what it can), to the other one request at a time with
//! quiescence in between. Final log, commit index, applied index and the acknowledgement each
//! sender receives must agree (DESIGN.md §7 C36). The schedule dimension is the burst partition.

use std::collections::{BTreeMap, HashMap};
use std::rc::Rc;
use std::sync::{Arc, Mutex};
use std::time::Duration;

use bytes::Bytes;
use d_engine_core::{InboundEvent, MaybeCloneOneshot, RaftLog, RaftOneshot};
use d_engine_proto::common::{Entry, EntryPayload, LogId};
use d_engine_proto::server::replication::append_entries_response::Result as AeResult;
use d_engine_proto::server::replication::{AppendEntriesRequest, AppendEntriesResponse};
use prost::Message;
use serde::{Deserialize, Serialize};
use serde_json::{Value, json};

use crate::net::{Net, NetConfig};
use crate::node::SimNode;
use crate::oracle::{Oracle, OracleRef};
use crate::plan::gen_plan;
use crate::rng::Rng;
use crate::world::node_config;

#[derive(Serialize, Deserialize, Clone, Debug)]
pub struct MReq {
    pub leader: u32,
    pub term: u64,
    pub prev_i: u64,
    pub prev_t: u64,
    /// (index, term) of the entries carried; the payload is a function of (term, index)
    pub entries: Vec<(u64, u64)>,
    pub commit: u64,
    pub what: String,
}

#[derive(Serialize, Deserialize, Clone, Debug)]
pub struct MergePlan {
    pub seed: u64,
    pub max_merge: usize,
    pub max_batch: usize,
    pub apply_latency: (u64, u64),
    pub reqs: Vec<MReq>,
    /// sizes of the consecutive bursts the burst follower receives
    pub bursts: Vec<usize>,
}

pub fn gen_merge_plan(seed: u64) -> MergePlan {
    let mut r = Rng::new(seed ^ 0x36_36_36);
    let n_leaders = r.range(1, 3) as usize;
    let mut reqs = Vec::new();
    // current leader's log: term per index (index = position + 1)
    let mut log: Vec<u64> = (0..r.range(0, 4)).map(|_| 1u64).collect();
    let mut sent_before: Vec<MReq> = Vec::new();
    let mut prev_leader_term = 0u64;
    for j in 0..n_leaders {
        let leader = 3 + j as u32;
        let term = 2 + j as u64 * r.range(1, 2);
        // terms strictly increase from one leader to the next (one leader per term is C01's business, not C36's)
        let term = term.max(log.last().copied().unwrap_or(1) + 1).max(prev_leader_term + 1);
        prev_leader_term = term;
        if j > 0 {
            // the new leader holds a prefix of its predecessor's log (at least what was "committed")
            let keep = r.range((log.len() as u64).saturating_sub(4), log.len() as u64) as usize;
            log.truncate(keep);
        }
        // where this leader believes the follower is
        // the first leader replicates its log from the start (the followers begin empty); later leaders
        // start from where they believe the follower is
        let mut next = if j == 0 { 1 } else if r.chance(2, 3) { log.len() as u64 + 1 } else { r.range(1, log.len() as u64 + 1) };
        let mut commit = 0u64;
        let n_steps = r.range(3, 14);
        for _ in 0..n_steps {
            let roll = r.below(100);
            let mk = |log: &Vec<u64>, from: u64, n: u64, commit: u64, what: &str| -> MReq {
                let prev_i = from - 1;
                let prev_t = if prev_i == 0 { 0 } else { log.get(prev_i as usize - 1).copied().unwrap_or(0) };
                let entries = (from..from + n).filter(|i| *i as usize <= log.len()).map(|i| (i, log[i as usize - 1])).collect();
                MReq { leader, term, prev_i, prev_t, entries, commit, what: what.to_string() }
            };
            match roll {
                0..=54 => {
                    // new entries right after what was sent last (a mergeable chain)
                    let n = r.range(1, 4);
                    while (log.len() as u64) < next + n - 1 {
                        log.push(term);
                    }
                    if r.chance(1, 2) {
                        commit = commit.max(r.range(commit, next + n - 1));
                    }
                    reqs.push(mk(&log, next, n, commit, "chain"));
                    next += n;
                }
                55..=69 => {
                    if r.chance(1, 2) {
                        commit = commit.max(r.range(commit, next.saturating_sub(1)));
                    }
                    reqs.push(mk(&log, next, 0, commit, "heartbeat"));
                }
                70..=77 => {
                    // overlapping resend: go back a few entries
                    let back = r.range(1, 3).min(next - 1);
                    if back > 0 {
                        let from = next - back;
                        let n = r.range(back, back + 2);
                        while (log.len() as u64) < from + n - 1 {
                            log.push(term);
                        }
                        reqs.push(mk(&log, from, n, commit, "overlap"));
                        next = next.max(from + n);
                    }
                }
                78..=85 => {
                    // exact duplicate of an earlier request (retransmission / delayed delivery)
                    if !sent_before.is_empty() || !reqs.is_empty() {
                        let pool: Vec<MReq> = sent_before.iter().chain(reqs.iter()).cloned().collect();
                        let mut d = r.pick(&pool).clone();
                        d.what = format!("dup_of_{}", d.what);
                        reqs.push(d);
                    }
                }
                86..=92 => {
                    // a request that skips ahead (an earlier one was lost): prev is beyond what was sent
                    let gap = r.range(1, 3);
                    let n = r.range(1, 3);
                    while (log.len() as u64) < next + gap + n - 1 {
                        log.push(term);
                    }
                    reqs.push(mk(&log, next + gap, n, commit, "gap"));
                }
                _ => {
                    // the leader backs up after a conflict
                    next = r.range(1, next);
                    reqs.push(mk(&log, next, 0, commit, "probe_back"));
                }
            }
        }
        sent_before.extend(reqs.iter().cloned());
    }
    // burst partition
    let mut bursts = Vec::new();
    let mut left = reqs.len();
    let big = r.chance(1, 2);
    while left > 0 {
        let b = (if big { r.range(2, 8) } else { r.range(1, 4) } as usize).min(left);
        bursts.push(b);
        left -= b;
    }
    MergePlan {
        seed,
        max_merge: *r.pick(&[1usize, 2, 4, 8, 1000]),
        max_batch: *r.pick(&[1usize, 4, 16, 100]),
        apply_latency: *r.pick(&[(0u64, 0u64), (0, 2), (1, 15)]),
        reqs,
        bursts,
    }
}

fn payload_of(term: u64, index: u64) -> Bytes {
    let wc = d_engine_proto::client::WriteCommand::insert(Bytes::from(format!("k{}", index % 3)), Bytes::from(format!("t{term}i{index}")));
    Bytes::from(wc.encode_to_vec())
}

fn to_request(q: &MReq) -> AppendEntriesRequest {
    AppendEntriesRequest {
        term: q.term,
        leader_id: q.leader,
        prev_log_index: q.prev_i,
        prev_log_term: q.prev_t,
        entries: q.entries.iter().map(|(i, t)| Entry { index: *i, term: *t, payload: Some(EntryPayload::command(payload_of(*t, *i))) }).collect(),
        leader_commit_index: q.commit,
    }
}

#[derive(Debug, Clone, PartialEq)]
enum Ack {
    Success { term: u64, match_i: u64 },
    Conflict { term: u64 },
    HigherTerm { term: u64 },
    Error(String),
    Missing,
}

fn classify(r: Option<std::result::Result<AppendEntriesResponse, tonic::Status>>) -> Ack {
    match r {
        None => Ack::Missing,
        Some(Err(s)) => Ack::Error(format!("{:?}", s.code())),
        Some(Ok(resp)) => match resp.result {
            Some(AeResult::Success(s)) => Ack::Success { term: resp.term, match_i: s.last_match.map(|l| l.index).unwrap_or(0) },
            Some(AeResult::Conflict(_)) => Ack::Conflict { term: resp.term },
            Some(AeResult::HigherTerm(t)) => Ack::HigherTerm { term: t },
            None => Ack::Error("no result".into()),
        },
    }
}

struct Outcome {
    acks: Vec<Ack>,
    log: Vec<(u64, u64, Bytes)>,
    commit: u64,
    applied: u64,
    merged_events: u64,
}

async fn drive(node: &mut SimNode, plan: &MergePlan, bursts: &[usize], commits: &Arc<Mutex<HashMap<u32, u64>>>) -> Outcome {
    node.start().await;
    tokio::time::sleep(Duration::from_millis(50)).await;
    let tx = node.cur.as_ref().unwrap().event_tx.clone();
    let mut acks = Vec::new();
    let mut k = 0usize;
    // (a minimised plan may have a burst list that no longer adds up: the rest is delivered one by one)
    let mut bursts: Vec<usize> = bursts.to_vec();
    let covered: usize = bursts.iter().sum();
    if covered < plan.reqs.len() {
        bursts.extend(std::iter::repeat(1).take(plan.reqs.len() - covered));
    }
    for b in bursts.iter() {
        let b = &(*b).min(plan.reqs.len() - k);
        if *b == 0 {
            continue;
        }
        let mut rxs = Vec::new();
        // the whole burst is queued before the Raft loop is polled again (no await in between)
        for q in &plan.reqs[k..k + b] {
            let (otx, orx) = MaybeCloneOneshot::new();
            let _ = tx.try_send(InboundEvent::AppendEntries(to_request(q), vec![otx]));
            rxs.push(orx);
        }
        k += b;
        for rx in rxs {
            let r = match tokio::time::timeout(Duration::from_secs(5), rx).await {
                Ok(Ok(r)) => Some(r),
                _ => None,
            };
            acks.push(classify(r));
        }
        // quiescence: commit handler and state machine worker catch up
        tokio::time::sleep(Duration::from_millis(60)).await;
    }
    tokio::time::sleep(Duration::from_millis(500)).await;
    let cur = node.cur.as_ref().unwrap();
    let first = cur.raft_log.first_entry_id();
    let last = cur.raft_log.last_entry_id();
    let entries = if last > 0 { cur.raft_log.get_entries_range(first..=last).unwrap_or_default() } else { vec![] };
    let log = entries
        .iter()
        .map(|e| (e.index, e.term, e.payload.as_ref().map(|p| Bytes::from(p.encode_to_vec())).unwrap_or_default()))
        .collect();
    let commit = commits.lock().unwrap().get(&node.id).copied().unwrap_or(0);
    let applied = node.sm_img.lock().unwrap().last_applied.0;
    Outcome { acks, log, commit, applied, merged_events: 0 }
}

async fn run(plan: MergePlan, root: &std::path::Path) -> Value {
    let oracle: OracleRef = Oracle::new(false);
    let net = Net::new(plan.seed, NetConfig::default(), oracle.clone());
    // commit index per node from the core's state hook
    let commits: Arc<Mutex<HashMap<u32, u64>>> = Arc::new(Mutex::new(HashMap::new()));
    {
        let c = commits.clone();
        d_engine_core::verif::set_hook(Rc::new(move |ev| {
            if let d_engine_core::verif::Event::State(v) = ev {
                c.lock().unwrap().insert(v.node_id, v.commit_index);
            }
        }));
    }
    let mut k = gen_plan(plan.seed, "calm", &[]).knobs;
    // the followers must never start an election during the run
    k.election_min = 3_600_000;
    k.election_max = 7_200_000;
    k.max_merge = plan.max_merge;
    k.max_batch = plan.max_batch;
    k.snap_threshold = 1_000_000;
    k.apply_latency = plan.apply_latency;
    let members: Vec<(u32, bool)> = (1..=5).map(|i| (i, false)).collect();
    let mut nodes = Vec::new();
    for id in [1u32, 2u32] {
        let cfg = match node_config(id, &members, root, &k).validate() {
            Ok(c) => c,
            Err(e) => return json!({"seed": plan.seed, "harness_error": format!("config rejected: {e:?}")}),
        };
        let n = SimNode::new(id, plan.seed, cfg, net.clone(), oracle.clone());
        n.sm_obs.lock().unwrap().apply_latency_ms = k.apply_latency;
        nodes.push(n);
    }
    let ones: Vec<usize> = vec![1; plan.reqs.len()];
    let mut nb = nodes.pop().unwrap();
    let mut na = nodes.pop().unwrap();
    let a = drive(&mut na, &plan, &plan.bursts, &commits).await;
    let b = drive(&mut nb, &plan, &ones, &commits).await;

    let mut o = oracle.lock().unwrap();
    for (i, q) in plan.reqs.iter().enumerate() {
        o.trace("mreq", q.prev_i, q.entries.len() as u64, q.term);
        let _ = i;
    }
    for x in &plan.bursts {
        o.trace("burst", *x as u64, 0, 0);
    }
    let burst_of = |idx: usize| -> (usize, usize) {
        let mut s = 0;
        for (bi, b) in plan.bursts.iter().enumerate() {
            if idx < s + b {
                return (bi, *b);
            }
            s += b;
        }
        (0, 0)
    };
    if a.log != b.log {
        let first_diff = a.log.iter().zip(b.log.iter()).position(|(x, y)| x != y).unwrap_or(a.log.len().min(b.log.len()));
        o.violate(
            "C36",
            "merge_changed_outcome",
            json!({"what": "log", "burst_last": a.log.last().map(|e| (e.0, e.1)), "sequential_last": b.log.last().map(|e| (e.0, e.1)),
                   "first_differing_position": first_diff, "bursts": plan.bursts}),
        );
    }
    if a.commit != b.commit {
        // attribution facts (KF19): a request with a lower leader_commit queued, in one burst and one term, behind a
        // request with a higher one (a delayed duplicate behind a newer heartbeat); the merge rule takes the maximum
        let mut lower_behind_higher = false;
        let mut s0 = 0usize;
        for bl in &plan.bursts {
            let grp = &plan.reqs[s0..s0 + *bl];
            for j in 1..grp.len() {
                if grp[..j].iter().any(|p| p.term == grp[j].term && p.commit > grp[j].commit) {
                    lower_behind_higher = true;
                }
            }
            s0 += *bl;
        }
        o.violate(
            "C36",
            "merge_changed_outcome",
            json!({"what": "commit", "burst": a.commit, "sequential": b.commit, "bursts": plan.bursts,
                   "merged_commit_higher": a.commit > b.commit,
                   "lower_leader_commit_queued_behind_higher_in_one_burst": lower_behind_higher}),
        );
    }
    if a.applied != b.applied {
        // not part of C36 (log, commit index, acknowledgements): seen when a duplicated prev(0,0) request resets the
        // log while the commit handler is reading it (the KF15 family); recorded as a reach probe only
        o.probe("applied_index_differs_burst_vs_sequential");
    }
    let max_index_sent = plan.reqs.iter().map(|q| q.prev_i + q.entries.len() as u64).max().unwrap_or(0);
    let mut successes = 0u64;
    let mut conflicts = 0u64;
    let mut higher = 0u64;
    let mut term_diffs = 0u64;
    for (i, (x, y)) in a.acks.iter().zip(b.acks.iter()).enumerate() {
        let same = match (x, y) {
            // One response is fanned out to all merged senders (the mechanism the property names), so a
            // merged success names the match position after the whole merged request. It is accepted when it
            // covers the sender's own request (prev + number of entries) and is not beyond any index ever
            // sent; the one-at-a-time answer itself is >= that coverage too (a heartbeat is answered with the
            // follower's last index). An answer below the request's own coverage, or a different kind
            // (success / conflict / higher term), is a changed outcome.
            // (the `term` field of a merged answer is the follower's term when the burst was taken up; a one-at-a-time
            // follower has already adopted the leader's term by the second request - not compared)
            (Ack::Success { term: t1, match_i: m1 }, Ack::Success { term: t2, match_i: m2 }) => {
                if t1 != t2 {
                    term_diffs += 1;
                }
                let cover = plan.reqs[i].prev_i + plan.reqs[i].entries.len() as u64;
                let _ = m2;
                *m1 >= cover && *m1 <= max_index_sent
            }
            (Ack::Conflict { term: t1 }, Ack::Conflict { term: t2 }) => {
                if t1 != t2 {
                    term_diffs += 1;
                }
                true
            }
            (p, q) => p == q,
        };
        match y {
            Ack::Success { .. } => successes += 1,
            Ack::Conflict { .. } => conflicts += 1,
            Ack::HigherTerm { .. } => higher += 1,
            _ => {}
        }
        if !same {
            let (bi, bsz) = burst_of(i);
            o.violate(
                "C36",
                "merge_changed_outcome",
                json!({"what": "response", "request": i, "request_shape": plan.reqs[i].what, "burst_index": bi, "burst_size": bsz,
                       "burst_ack": format!("{x:?}"), "sequential_ack": format!("{y:?}")}),
            );
        }
    }
    o.probe_n("ack_success", successes);
    o.probe_n("ack_conflict", conflicts);
    o.probe_n("ack_higher_term", higher);
    o.probe_n("ack_term_field_differs_only", term_diffs);
    // how many requests could have been merged (adjacent in a burst, same term, contiguous)
    let mut mergeable = 0u64;
    let mut s = 0usize;
    for b in &plan.bursts {
        for i in s + 1..s + b {
            let (p, q) = (&plan.reqs[i - 1], &plan.reqs[i]);
            if p.term == q.term && p.prev_i + p.entries.len() as u64 == q.prev_i {
                mergeable += 1;
            }
        }
        s += b;
    }
    o.probe_n("mergeable_adjacent_pairs", mergeable);
    let nontrivial = mergeable > 0 && successes > 0;
    let mut res = json!({
        "seed": plan.seed, "scenario": "merge", "vtime_ms": crate::seams::vnow_ms(), "oracle": o.summary(), "nontrivial": nontrivial,
        "event_seq": crate::oracle::current_event_seq(),
        "faults_fired": {"burst_delivery": plan.bursts.iter().filter(|b| **b > 1).count(), "duplicate_request": plan.reqs.iter().filter(|q| q.what.starts_with("dup")).count(),
                         "gapped_request": plan.reqs.iter().filter(|q| q.what == "gap").count(), "overlapping_request": plan.reqs.iter().filter(|q| q.what == "overlap").count()},
        "stats": {"requests": plan.reqs.len(), "bursts": plan.bursts.len(), "final_log_len": a.log.len(), "final_commit": a.commit},
        "plan_summary": {"requests": plan.reqs.len(), "bursts": plan.bursts, "max_merge": plan.max_merge, "max_batch": plan.max_batch},
        "sample": plan.reqs.iter().take(10).map(|q| format!("{} t{} prev({},{}) n{} c{}", q.what, q.term, q.prev_i, q.prev_t, q.entries.len(), q.commit)).collect::<Vec<_>>(),
    });
    if !o.violations.is_empty() {
        res["plan"] = serde_json::to_value(&plan).unwrap();
    }
    res
}

pub fn run_cli(seed: u64, kv: &HashMap<String, String>) -> i32 {
    let plan: MergePlan = match kv.get("plan") {
        Some(p) => {
            let v: Value = serde_json::from_str(&std::fs::read_to_string(p).expect("read plan")).expect("json");
            serde_json::from_value(v.get("plan").cloned().unwrap_or(v)).expect("plan schema")
        }
        None => gen_merge_plan(seed),
    };
    let res = std::thread::Builder::new()
        .stack_size(128 << 20)
        .spawn(move || {
            crate::seams::enter_sim_thread(plan.seed);
            crate::seams::reset_time();
            crate::oracle::reset_event_seq();
            tokio::verif::reset();
            let root = crate::cluster::tmp_root();
            let _ = std::fs::remove_dir_all(&root);
            std::fs::create_dir_all(root.join("tmp")).unwrap();
            unsafe { std::env::set_var("TMPDIR", root.join("tmp")) };
            let rt = tokio::runtime::Builder::new_current_thread().enable_time().start_paused(true).build().unwrap();
            let local = tokio::task::LocalSet::new();
            let root2 = root.clone();
            let r = local.block_on(&rt, async move {
                d_engine_core::init_clock();
                run(plan, &root2).await
            });
            d_engine_core::verif::clear_hook();
            drop(local);
            drop(rt);
            let _ = std::fs::remove_dir_all(&root);
            r
        })
        .unwrap()
        .join()
        .unwrap_or_else(|_| json!({"harness_error": "mergesim thread panicked"}));
    let out = serde_json::to_string(&res).unwrap();
    if let Some(p) = kv.get("out") {
        std::fs::write(p, &out).unwrap();
    } else {
        eprintln!("RESULT {out}");
    }
    0
}

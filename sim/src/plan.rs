//! Run plans: configuration knobs, fault items, client workload (DESIGN.md §4, §5).
//! A plan is plain data (JSON); `gen_plan(seed, scenario)` is a pure function.

use serde::{Deserialize, Serialize};

use crate::rng::Rng;

#[derive(Serialize, Deserialize, Clone, Debug, PartialEq)]
#[serde(tag = "sel", content = "v")]
pub enum NodeSel {
    Id(u32),
    /// whoever acts as leader (highest term) at fire time; falls back to Any
    Leader,
    /// k-th up voter that is not the leader
    Follower(u32),
    /// k-th up node
    Any(u32),
}

#[derive(Serialize, Deserialize, Clone, Debug, PartialEq)]
#[serde(tag = "kind")]
pub enum Fault {
    /// isolate `side` from everybody else (both directions)
    Partition { at: u64, dur: u64, side: Vec<NodeSel> },
    /// block only traffic from `src` side to the rest (requests out are lost, in still arrive)
    OneWay { at: u64, dur: u64, node: NodeSel, outbound: bool },
    Crash { at: u64, node: NodeSel, power_loss: bool, down_ms: u64 },
    Graceful { at: u64, node: NodeSel, down_ms: u64 },
    FullRestart { at: u64, down_ms: u64 },
    SlowLink { at: u64, dur: u64, src: NodeSel, dst: NodeSel, extra_ms: u64 },
    /// responses towards `node` are slow (requests from it stay fast)
    SlowReturn { at: u64, dur: u64, node: NodeSel, extra_ms: u64 },
    BreakStreams { at: u64, a: NodeSel, b: NodeSel },
    DiskStall { at: u64, node: NodeSel, dur: u64 },
    ApplyStall { at: u64, node: NodeSel, dur: u64 },
    DropRate { at: u64, dur: u64, per_mille: u64 },
    /// start a learner node that joins the cluster
    Join { at: u64, node: u32 },
    /// event-anchored: armed at `at`; the voter that sends the `nth` granted vote response from then on is
    /// crashed at that instant (reply on its way, whatever it persisted is all that survives)
    CrashOnGrant { at: u64, nth: u32, power_loss: bool, down_ms: u64 },
    /// event-anchored: armed at `at`; the node that makes the `nth` transition to Leader from then on is cut off
    /// from everybody at that instant (its no-op is in its own log only) for `dur` ms, or crashed (`crash`)
    IsolateNewLeader { at: u64, nth: u32, dur: u64, crash: bool },
}

impl Fault {
    pub fn at(&self) -> u64 {
        match self {
            Fault::Partition { at, .. }
            | Fault::OneWay { at, .. }
            | Fault::Crash { at, .. }
            | Fault::Graceful { at, .. }
            | Fault::FullRestart { at, .. }
            | Fault::SlowLink { at, .. }
            | Fault::SlowReturn { at, .. }
            | Fault::BreakStreams { at, .. }
            | Fault::DiskStall { at, .. }
            | Fault::ApplyStall { at, .. }
            | Fault::DropRate { at, .. }
            | Fault::Join { at, .. }
            | Fault::CrashOnGrant { at, .. }
            | Fault::IsolateNewLeader { at, .. } => *at,
        }
    }
    pub fn kind_name(&self) -> &'static str {
        match self {
            Fault::Partition { .. } => "partition",
            Fault::OneWay { .. } => "one_way",
            Fault::Crash { power_loss: true, .. } => "power_loss",
            Fault::Crash { .. } => "process_crash",
            Fault::Graceful { .. } => "graceful_restart",
            Fault::FullRestart { .. } => "full_restart",
            Fault::SlowLink { .. } => "slow_link",
            Fault::SlowReturn { .. } => "slow_return",
            Fault::BreakStreams { .. } => "break_streams",
            Fault::DiskStall { .. } => "disk_stall",
            Fault::ApplyStall { .. } => "apply_stall",
            Fault::DropRate { .. } => "drop_rate",
            Fault::Join { .. } => "join",
            Fault::CrashOnGrant { .. } => "crash_on_vote_grant",
            Fault::IsolateNewLeader { crash: true, .. } => "crash_new_leader_before_first_replication",
            Fault::IsolateNewLeader { .. } => "isolate_new_leader_before_first_replication",
        }
    }
}

#[derive(Serialize, Deserialize, Clone, Debug, PartialEq)]
pub enum OpKind {
    Put,
    PutTtl,
    Delete,
    /// expected: 0 = last value this client saw for the key, 1 = absent, 2 = a wrong value
    Cas(u8),
    ReadLin,
    ReadLease,
    ReadEventual,
    ReadDefault,
    MultiRead,
    Scan,
    /// put with an empty command (must be rejected)
    Empty,
}

#[derive(Serialize, Deserialize, Clone, Debug, PartialEq)]
pub struct OpPlan {
    pub gap_ms: u64,
    pub kind: OpKind,
    pub key: u8,
    /// 0 = believed leader (hint / notification), otherwise node id = (target-1) % n + 1
    pub target: u32,
    /// 0 = raw ClientCmd (own oneshot), 1 = EmbeddedClient, 2 = tonic service method of Node<T> (gRPC handler)
    pub path: u8,
}

#[derive(Serialize, Deserialize, Clone, Debug, PartialEq)]
pub struct ClientPlan {
    pub id: u32,
    pub start_ms: u64,
    pub ops: Vec<OpPlan>,
}

#[derive(Serialize, Deserialize, Clone, Debug, PartialEq)]
pub struct Knobs {
    pub election_min: u64,
    pub election_max: u64,
    pub heartbeat_ms: u64,
    pub lease_ms: u64,
    pub cap: u64,
    pub max_batch: usize,
    pub max_merge: usize,
    pub retained: u64,
    pub snap_threshold: u64,
    pub snapshot_enable: bool,
    pub snap_cooldown_ms: u64,
    pub general_timeout_ms: u64,
    pub verify_leadership_ms: u64,
    pub idle_flush_ms: u64,
    /// 0 lease, 1 linearizable, 2 eventual
    pub default_policy: u8,
    pub allow_override: bool,
    pub max_pending_writes: usize,
    pub apply_latency: (u64, u64),
    pub disk_latency: (u64, u64),
    pub net_latency: (u64, u64),
    pub drop_per_mille: u64,
    pub keepalive_ms: u64,
    pub client_timeout_ms: u64,
    pub catchup_threshold: u64,
    pub election_retry_timeout_ms: u64,
    /// watch.event_queue_size (broadcast channel between apply and the dispatcher)
    #[serde(default = "d_watch_queue")]
    pub watch_queue: usize,
    /// watch.watcher_buffer_size (per-watcher channel)
    #[serde(default = "d_watch_buf")]
    pub watch_buf: usize,
    /// watch.heartbeat_interval_ms (Progress events; 0 = off)
    #[serde(default = "d_watch_hb")]
    pub watch_heartbeat_ms: u64,
    /// membership.promotion.stale_learner_threshold (0 = keep d-engine's default): a learner that stays ready but
    /// unpromoted this long is removed by the leader through a BatchRemove entry
    #[serde(default)]
    pub stale_learner_ms: u64,
}
fn d_watch_hb() -> u64 {
    30_000
}
fn d_watch_queue() -> usize {
    10240
}
fn d_watch_buf() -> usize {
    256
}

/// One watcher task (C24).
#[derive(Serialize, Deserialize, Clone, Debug, PartialEq)]
pub struct WatchPlan {
    pub start_ms: u64,
    /// 0 = current leader, otherwise node id = (node-1) % n + 1
    pub node: u32,
    pub key: u8,
    pub prefix: bool,
    pub prev_kv: bool,
    /// pause between two receives (slow consumer)
    pub recv_delay_ms: u64,
    /// drop the handle after this many ms (0 = keep until the end)
    pub drop_after_ms: u64,
}

#[derive(Serialize, Deserialize, Clone, Debug, PartialEq)]
pub struct Plan {
    pub seed: u64,
    pub scenario: String,
    pub voters: Vec<u32>,
    pub learners: Vec<u32>,
    pub knobs: Knobs,
    pub horizon_ms: u64,
    pub quiet_ms: u64,
    pub faults: Vec<Fault>,
    pub clients: Vec<ClientPlan>,
    pub keys: u8,
    /// enabling conditions of open known findings that this plan does not generate
    pub masked: Vec<String>,
    #[serde(default)]
    pub watchers: Vec<WatchPlan>,
}

fn gen_knobs(r: &mut Rng, scenario: &str) -> Knobs {
    // All combinations below must pass RaftNodeConfig::validate(); the runner calls it.
    let net_hi = *r.pick(&[3u64, 8, 20, 40]);
    // Coherent timing (as any deployment must have): one vote round (3 attempts with
    // back-off) fits well inside the minimum election timeout, and an RPC timeout covers a
    // round trip. Otherwise candidates block each other forever, which no property forbids.
    let election_retry_timeout_ms = (4 * net_hi).max(30);
    let floor = 6 * election_retry_timeout_ms + 150;
    let choices: Vec<u64> = [300u64, 500, 800, 1500].iter().copied().filter(|e| *e >= floor).collect();
    let election_min = if choices.is_empty() { 1500 } else { *r.pick(&choices) };
    let election_max = election_min * 2;
    let heartbeat_ms = *r.pick(&[20u64, 50, 100]).min(&(election_min / 5));
    // lease + rtt/2 < election_min is enforced by validate(); stay inside with margin drawn
    let lease_ms = (election_min * r.range(30, 90) / 100).max(10);
    let mut k = Knobs {
        election_min,
        election_max,
        heartbeat_ms,
        lease_ms,
        cap: *r.pick(&[1u64, 2, 3, 5, 10, 100]),
        max_batch: *r.pick(&[1usize, 4, 16, 100]),
        max_merge: *r.pick(&[1usize, 2, 8, 1000]),
        retained: *r.pick(&[1u64, 1, 2, 5]),
        snap_threshold: *r.pick(&[1000u64, 1000, 20, 40]),
        snapshot_enable: true,
        snap_cooldown_ms: *r.pick(&[0u64, 100, 2000]),
        general_timeout_ms: *r.pick(&[50u64, 200, 500, 1000]),
        verify_leadership_ms: *r.pick(&[800u64, 2000, 3_600_000]),
        idle_flush_ms: *r.pick(&[5u64, 50, 500]),
        default_policy: r.below(3) as u8,
        allow_override: r.chance(3, 4),
        max_pending_writes: *r.pick(&[10_000usize, 10_000, 3]),
        apply_latency: *r.pick(&[(0u64, 0u64), (0, 2), (1, 15), (5, 60)]),
        disk_latency: *r.pick(&[(0u64, 0u64), (0, 1), (1, 10), (5, 40)]),
        net_latency: (1, net_hi),
        drop_per_mille: *r.pick(&[0u64, 0, 5, 30]),
        keepalive_ms: *r.pick(&[500u64, 2000, 5000]),
        client_timeout_ms: *r.pick(&[300u64, 800, 2000]),
        catchup_threshold: *r.pick(&[1u64, 1, 5]),
        election_retry_timeout_ms,
        watch_queue: 10240,
        watch_buf: 256,
        watch_heartbeat_ms: 30_000,
        stale_learner_ms: 0,
    };
    match scenario {
        "snapshot" => {
            k.snap_threshold = *r.pick(&[8u64, 15, 30]);
            k.snap_cooldown_ms = *r.pick(&[0u64, 50]);
        }
        "lag" => {
            k.cap = *r.pick(&[1u64, 2, 3]);
            k.snap_threshold = 1000;
        }
        "staletail" => {
            // a deposed leader must come back with a long uncommitted tail behind a small cap
            k.cap = *r.pick(&[1u64, 2, 3]);
            k.snap_threshold = 1000;
            k.general_timeout_ms = 1000;
            k.max_pending_writes = 10_000;
            k.default_policy = 1;
        }
        "deadline" => {
            k.general_timeout_ms = *r.pick(&[50u64, 100, 200]);
        }
        "membership" => {
            // removals happen too: a ready learner that cannot be promoted (even voter count) is removed
            k.stale_learner_ms = *r.pick(&[0u64, 1500, 4000]);
        }
        "watch" => {
            // small queues so that both overflow kinds (broadcast lag, watcher buffer) occur; large apply batches
            k.watch_queue = *r.pick(&[2usize, 8, 64, 10240]);
            k.watch_buf = *r.pick(&[2usize, 8, 256]);
            k.watch_heartbeat_ms = *r.pick(&[0u64, 200, 1000]);
            k.max_batch = *r.pick(&[16usize, 100, 100]);
            k.snap_threshold = 1_000_000;
            k.max_pending_writes = 10_000;
        }
        "reelect" => {
            // the repair of the deposed leader's log should fit into one request
            k.cap = *r.pick(&[10u64, 100, 100]);
            k.snap_threshold = 1000;
            k.max_pending_writes = 10_000;
            k.general_timeout_ms = 1000;
        }
        "lease" | "linread" | "leaselearner" => {
            // make the requested policies effective so the reads are really strong reads
            k.allow_override = true;
        }
        _ => {}
    }
    k
}

fn gen_clients(r: &mut Rng, n_clients: u32, n_nodes: u32, horizon: u64, keys: u8, scenario: &str) -> Vec<ClientPlan> {
    let mut out = Vec::new();
    for c in 0..n_clients {
        let mut ops = Vec::new();
        let mut t = r.range(300, 1500);
        let start = t;
        let gap_hi = *r.pick(&[20u64, 60, 150, 400]);
        while t < horizon && ops.len() < 120 {
            let gap = r.range(2, gap_hi);
            t += gap;
            let roll = r.below(100);
            let kind = match scenario {
                "lease" | "linread" | "leaselearner" => match roll {
                    0..=34 => OpKind::Put,
                    35..=39 => OpKind::Delete,
                    40..=47 => OpKind::Cas(r.below(3) as u8),
                    48..=69 => OpKind::ReadLin,
                    70..=91 => OpKind::ReadLease,
                    92..=95 => OpKind::ReadDefault,
                    _ => OpKind::ReadEventual,
                },
                "deadline" => match roll {
                    0..=29 => OpKind::Put,
                    30..=37 => OpKind::Cas(r.below(3) as u8),
                    38..=41 => OpKind::Delete,
                    42..=79 => OpKind::ReadLin,
                    80..=89 => OpKind::ReadLease,
                    90..=93 => OpKind::Scan,
                    94..=96 => OpKind::MultiRead,
                    _ => OpKind::ReadDefault,
                },
                "watch" => match roll {
                    0..=54 => OpKind::Put,
                    55..=69 => OpKind::Delete,
                    70..=89 => OpKind::Cas(r.below(3) as u8),
                    90..=94 => OpKind::PutTtl,
                    _ => OpKind::ReadLin,
                },
                "staletail" | "reelect" => match roll {
                    0..=74 => OpKind::Put,
                    75..=84 => OpKind::Cas(r.below(3) as u8),
                    85..=89 => OpKind::Delete,
                    _ => OpKind::ReadLin,
                },
                "routing" => match roll {
                    0..=19 => OpKind::Put,
                    20..=39 => OpKind::ReadLin,
                    40..=59 => OpKind::ReadLease,
                    60..=79 => OpKind::ReadEventual,
                    80..=89 => OpKind::ReadDefault,
                    _ => OpKind::MultiRead,
                },
                _ => match roll {
                    0..=39 => OpKind::Put,
                    40..=44 => OpKind::PutTtl,
                    45..=52 => OpKind::Delete,
                    53..=64 => OpKind::Cas(r.below(3) as u8),
                    65..=79 => OpKind::ReadLin,
                    80..=86 => OpKind::ReadLease,
                    87..=90 => OpKind::ReadEventual,
                    91..=93 => OpKind::ReadDefault,
                    94..=96 => OpKind::MultiRead,
                    97..=98 => OpKind::Scan,
                    _ => OpKind::Empty,
                },
            };
            let to_leader = if scenario == "routing" { r.chance(4, 10) } else { r.chance(7, 10) };
            let target = if to_leader { 0 } else { 1 + r.below(n_nodes as u64) as u32 };
            ops.push(OpPlan { gap_ms: gap, kind, key: r.below(keys as u64) as u8, target, path: r.below(3) as u8 });
        }
        out.push(ClientPlan { id: c + 1, start_ms: start, ops });
    }
    out
}

fn sel_follower(r: &mut Rng) -> NodeSel {
    NodeSel::Follower(r.below(4) as u32)
}
fn sel_any(r: &mut Rng) -> NodeSel {
    match r.below(3) {
        0 => NodeSel::Leader,
        1 => NodeSel::Follower(r.below(4) as u32),
        _ => NodeSel::Any(r.below(5) as u32),
    }
}

fn gen_faults(r: &mut Rng, scenario: &str, horizon: u64, n_voters: u32, masked: &[String]) -> Vec<Fault> {
    let mut f = Vec::new();
    let is_masked = |m: &str| masked.iter().any(|x| x == m);
    let n = match scenario {
        "calm" => 0,
        _ => r.range(1, 8),
    };
    let t0 = 1200;
    for _ in 0..n {
        let at = r.range(t0, horizon.saturating_sub(500).max(t0 + 1));
        let roll = r.below(100);
        let item = match scenario {
            "election" => match roll {
                0..=21 => Fault::Partition { at, dur: r.range(200, 4000), side: vec![NodeSel::Leader] },
                // split the cluster in two groups (an exact half for even voter counts)
                22..=25 => Fault::Partition { at, dur: r.range(500, 5000), side: vec![NodeSel::Leader, sel_follower(r)] },
                // a leader that never gets to replicate anything of its term (not even its no-op)
                26..=29 => Fault::IsolateNewLeader { at: if r.chance(1, 2) { 0 } else { at }, nth: r.range(1, 2) as u32, dur: r.range(800, 4000), crash: r.chance(1, 4) },
                30..=39 => Fault::CrashOnGrant { at: if r.chance(1, 3) { 0 } else { at }, nth: r.range(1, 4) as u32, power_loss: r.chance(1, 2), down_ms: r.range(10, 400) },
                40..=54 => Fault::Crash { at, node: sel_any(r), power_loss: r.chance(1, 2), down_ms: r.range(100, 3000) },
                55..=69 => Fault::OneWay { at, dur: r.range(200, 3000), node: NodeSel::Leader, outbound: r.chance(1, 2) },
                70..=84 => Fault::SlowReturn { at, dur: r.range(300, 3000), node: NodeSel::Leader, extra_ms: r.range(50, 900) },
                _ => Fault::BreakStreams { at, a: NodeSel::Leader, b: sel_follower(r) },
            },
            "lease" | "linread" | "leaselearner" => match roll {
                0..=39 => {
                    // leader plus (sometimes) one follower cut off from the majority
                    let mut side = vec![NodeSel::Leader];
                    if n_voters >= 5 && r.chance(2, 3) {
                        side.push(sel_follower(r));
                    }
                    Fault::Partition { at, dur: r.range(500, 6000), side }
                }
                40..=59 => Fault::SlowReturn { at, dur: r.range(300, 4000), node: NodeSel::Leader, extra_ms: r.range(50, 1500) },
                60..=74 => Fault::ApplyStall { at, node: sel_any(r), dur: r.range(50, 1500) },
                75..=89 => Fault::OneWay { at, dur: r.range(300, 4000), node: NodeSel::Leader, outbound: false },
                _ => Fault::Crash { at, node: sel_follower(r), power_loss: false, down_ms: r.range(100, 2000) },
            },
            "durability" => match roll {
                0..=44 => Fault::Crash { at, node: sel_any(r), power_loss: r.chance(1, 2), down_ms: r.range(50, 2500) },
                45..=59 => Fault::Partition { at, dur: r.range(200, 3000), side: vec![sel_any(r)] },
                60..=69 => Fault::DiskStall { at, node: sel_any(r), dur: r.range(50, 1500) },
                70..=79 => Fault::Graceful { at, node: sel_any(r), down_ms: r.range(50, 1500) },
                80..=86 => Fault::FullRestart { at, down_ms: r.range(50, 1000) },
                _ => Fault::BreakStreams { at, a: NodeSel::Leader, b: sel_follower(r) },
            },
            "staletail" => match roll {
                0..=69 => Fault::Partition { at, dur: r.range(1500, 5000), side: vec![NodeSel::Leader] },
                70..=84 => Fault::OneWay { at, dur: r.range(1500, 4000), node: NodeSel::Leader, outbound: true },
                _ => Fault::Crash { at, node: sel_follower(r), power_loss: false, down_ms: r.range(200, 2000) },
            },
            "lag" => match roll {
                0..=49 => Fault::Partition { at, dur: r.range(500, 5000), side: vec![sel_follower(r)] },
                50..=69 => Fault::Crash { at, node: sel_follower(r), power_loss: false, down_ms: r.range(500, 4000) },
                70..=84 => Fault::SlowLink { at, dur: r.range(500, 4000), src: NodeSel::Leader, dst: sel_follower(r), extra_ms: r.range(50, 600) },
                _ => Fault::BreakStreams { at, a: NodeSel::Leader, b: sel_follower(r) },
            },
            "newleader" => match roll {
                // leaders that never replicate anything of their term: their log ends in a term nobody else knows
                0..=64 => Fault::IsolateNewLeader { at: if r.chance(1, 2) { 0 } else { at }, nth: r.range(1, 2) as u32, dur: r.range(800, 4000), crash: r.chance(1, 5) },
                65..=79 => Fault::Partition { at, dur: r.range(200, 3000), side: vec![NodeSel::Leader] },
                80..=89 => Fault::Crash { at, node: sel_follower(r), power_loss: false, down_ms: r.range(200, 2000) },
                _ => Fault::SlowLink { at, dur: r.range(200, 3000), src: NodeSel::Leader, dst: sel_follower(r), extra_ms: r.range(20, 400) },
            },
            "membership" => match roll {
                // after a promotion the leader must need the new configuration's majority: cut it off alone or with
                // one old follower while the promoted node and the rest stay together
                0..=24 => Fault::Partition { at, dur: r.range(500, 5000), side: vec![NodeSel::Leader] },
                25..=44 => Fault::Partition { at, dur: r.range(500, 5000), side: vec![NodeSel::Leader, sel_follower(r)] },
                45..=54 => Fault::Partition { at, dur: r.range(200, 4000), side: vec![sel_any(r)] },
                55..=66 => Fault::Crash { at, node: sel_any(r), power_loss: r.chance(1, 2), down_ms: r.range(50, 3000) },
                67..=74 => Fault::Graceful { at, node: sel_any(r), down_ms: r.range(50, 2000) },
                75..=78 => Fault::FullRestart { at, down_ms: r.range(50, 1000) },
                79..=86 => Fault::ApplyStall { at, node: sel_any(r), dur: r.range(50, 1500) },
                87..=92 => Fault::SlowLink { at, dur: r.range(200, 3000), src: sel_any(r), dst: sel_any(r), extra_ms: r.range(20, 800) },
                _ => Fault::BreakStreams { at, a: NodeSel::Leader, b: sel_follower(r) },
            },
            "watch" => match roll {
                // stalls make the state machine worker apply large batches at once (burst of watch events)
                0..=39 => Fault::ApplyStall { at, node: sel_any(r), dur: r.range(100, 2000) },
                40..=54 => Fault::Partition { at, dur: r.range(200, 3000), side: vec![sel_any(r)] },
                55..=69 => Fault::Crash { at, node: sel_any(r), power_loss: false, down_ms: r.range(100, 2000) },
                70..=84 => Fault::SlowLink { at, dur: r.range(200, 3000), src: NodeSel::Leader, dst: sel_follower(r), extra_ms: r.range(50, 600) },
                _ => Fault::DiskStall { at, node: sel_any(r), dur: r.range(50, 1000) },
            },
            "routing" => match roll {
                // a leader cut off from the majority keeps believing it leads until its lease / verification fails
                0..=39 => Fault::Partition { at, dur: r.range(500, 5000), side: vec![NodeSel::Leader] },
                40..=54 => Fault::OneWay { at, dur: r.range(500, 4000), node: NodeSel::Leader, outbound: r.chance(1, 2) },
                55..=69 => Fault::Crash { at, node: sel_any(r), power_loss: false, down_ms: r.range(100, 2500) },
                70..=84 => Fault::SlowReturn { at, dur: r.range(300, 3000), node: NodeSel::Leader, extra_ms: r.range(50, 1200) },
                _ => Fault::ApplyStall { at, node: sel_any(r), dur: r.range(50, 1500) },
            },
            "deadline" => match roll {
                0..=39 => Fault::Partition { at, dur: r.range(300, 4000), side: vec![NodeSel::Leader] },
                40..=59 => Fault::ApplyStall { at, node: NodeSel::Leader, dur: r.range(100, 2500) },
                60..=79 => Fault::Partition { at, dur: r.range(1000, 8000), side: vec![sel_follower(r), sel_follower(r)] },
                _ => Fault::OneWay { at, dur: r.range(300, 3000), node: NodeSel::Leader, outbound: r.chance(1, 2) },
            },
            _ => match roll {
                0..=19 => Fault::Partition { at, dur: r.range(200, 4000), side: vec![sel_any(r)] },
                20..=29 => Fault::Partition { at, dur: r.range(200, 4000), side: vec![sel_any(r), sel_any(r)] },
                30..=44 => Fault::Crash { at, node: sel_any(r), power_loss: r.chance(1, 2), down_ms: r.range(50, 3000) },
                45..=52 => Fault::Graceful { at, node: sel_any(r), down_ms: r.range(50, 2000) },
                53..=56 => Fault::FullRestart { at, down_ms: r.range(50, 1000) },
                57..=64 => Fault::SlowLink { at, dur: r.range(200, 3000), src: sel_any(r), dst: sel_any(r), extra_ms: r.range(20, 800) },
                65..=72 => Fault::SlowReturn { at, dur: r.range(200, 3000), node: NodeSel::Leader, extra_ms: r.range(50, 1200) },
                73..=79 => Fault::BreakStreams { at, a: NodeSel::Leader, b: sel_follower(r) },
                80..=85 => Fault::DiskStall { at, node: sel_any(r), dur: r.range(50, 1500) },
                86..=91 => Fault::ApplyStall { at, node: sel_any(r), dur: r.range(50, 1500) },
                92..=94 => Fault::OneWay { at, dur: r.range(200, 3000), node: sel_any(r), outbound: r.chance(1, 2) },
                95..=96 => Fault::IsolateNewLeader { at, nth: 1, dur: r.range(800, 4000), crash: false },
                _ => Fault::DropRate { at, dur: r.range(200, 3000), per_mille: r.range(20, 300) },
            },
        };
        // containment of open known findings (DESIGN.md §8)
        let skip = match &item {
            Fault::Crash { .. } | Fault::FullRestart { .. } | Fault::CrashOnGrant { .. } | Fault::IsolateNewLeader { crash: true, .. }
                if is_masked("nongraceful_crash") =>
            {
                true
            }
            Fault::Crash { power_loss: true, .. } if is_masked("power_loss") => true,
            _ => false,
        };
        if !skip {
            f.push(item);
        }
    }
    f.sort_by_key(|x| x.at());
    f
}

pub const SCENARIOS: &[&str] =
    &["leaselearner", "newleader", "watch", "reelect", "staletail", "general", "calm", "election", "lease", "durability", "lag", "snapshot", "deadline", "membership", "routing"];

pub fn gen_plan(seed: u64, scenario: &str, masked: &[String]) -> Plan {
    let mut r = Rng::new(seed ^ 0xC1u64.rotate_left(40));
    let mut kr = r.fork(1);
    let knobs = gen_knobs(&mut kr, scenario);
    let n_voters: u32 = match scenario {
        "lease" | "linread" | "leaselearner" => *r.pick(&[3u32, 5, 5]),
        "membership" => *r.pick(&[1u32, 3, 3]),
        "routing" => 3,
        "reelect" => *r.pick(&[3u32, 3, 5]),
        "newleader" => *r.pick(&[3u32, 3, 5]),
        // even voter counts are legal configurations too (majority of 4 is 3, of 2 is 2)
        _ => *r.pick(&[1u32, 2, 3, 3, 3, 4, 5]),
    };
    let voters: Vec<u32> = (1..=n_voters).collect();
    let mut learners = Vec::new();
    let horizon = r.range(6_000, 25_000);
    let mut faults = {
        let mut fr = r.fork(2);
        gen_faults(&mut fr, scenario, horizon, n_voters, masked)
    };
    if scenario == "membership"
        || (scenario == "general" && r.chance(1, 5))
        || (scenario == "routing" && r.chance(1, 2))
        || (scenario == "lease" && r.chance(1, 3))
        || scenario == "leaselearner"
    {
        let n_l = r.range(1, 2) as u32;
        for i in 0..n_l {
            let id = n_voters + 1 + i;
            learners.push(id);
            let at = if r.chance(1, 2) { r.range(1000, 3000) } else { r.range(1000, horizon / 2) };
            faults.push(Fault::Join { at, node: id });
        }
        if scenario == "lease" || scenario == "leaselearner" {
            // a leader cut off from the voters may still reach a learner (learner ACKs must not count)
            let l0 = learners[0];
            for f in faults.iter_mut() {
                if let Fault::Partition { side, .. } = f {
                    if side.contains(&NodeSel::Leader) && (scenario == "leaselearner" || r.chance(1, 2)) {
                        side.push(NodeSel::Id(l0));
                    }
                }
            }
        }
        faults.sort_by_key(|x| x.at());
    }
    if scenario == "reelect" {
        // workload stops at t_stop; the leader is cut off across t_stop (so a successor commits entries and
        // the deposed leader keeps an uncommitted tail), is repaired after the heal with no client traffic,
        // and then the successor goes away so that the repaired node may be elected next
        let t_stop = horizon / 2;
        let t1 = r.range(1500, t_stop.saturating_sub(1200).max(1600));
        let t2 = t_stop + r.range(300, 1500);
        let t3 = t2 + r.range(600, 2500);
        faults.clear();
        faults.push(Fault::Partition { at: t1, dur: t2 - t1, side: vec![NodeSel::Leader] });
        if r.chance(2, 3) {
            faults.push(Fault::Crash { at: t3, node: NodeSel::Leader, power_loss: false, down_ms: r.range(2500, 5000) });
        } else {
            faults.push(Fault::Partition { at: t3, dur: r.range(2500, 5000), side: vec![NodeSel::Leader] });
        }
    }
    let mut knobs = knobs;
    if masked.iter().any(|m| m == "snapshot_install") {
        knobs.snap_threshold = 1_000_000;
    }
    if masked.iter().any(|m| m == "batch_promote") && learners.len() > 1 {
        let drop: Vec<u32> = learners.drain(1..).collect();
        faults.retain(|f| !matches!(f, Fault::Join { node, .. } if drop.contains(node)));
    }
    let keys = r.range(2, 5) as u8;
    // (deadline: many clients so that several requests are outstanding at one node at staggered times)
    let n_clients = if scenario == "deadline" { r.range(3, 12) as u32 } else { r.range(1, 5) as u32 };
    let clients = {
        let mut cr = r.fork(3);
        gen_clients(&mut cr, n_clients, n_voters + learners.len() as u32, horizon, keys, scenario)
    };
    let clients = if scenario == "reelect" {
        let t_stop = horizon / 2;
        clients
            .into_iter()
            .map(|mut c| {
                let mut t = c.start_ms;
                c.ops.retain(|o| {
                    t += o.gap_ms;
                    t < t_stop
                });
                c
            })
            .collect()
    } else {
        clients
    };
    let watchers = if scenario == "watch" || (scenario == "general" && r.chance(1, 4)) {
        let mut wr = r.fork(4);
        let n = wr.range(1, 5);
        (0..n)
            .map(|_| WatchPlan {
                start_ms: wr.range(200, horizon / 2),
                node: if wr.chance(1, 2) { 0 } else { 1 + wr.below(n_voters as u64) as u32 },
                key: wr.below(keys as u64) as u8,
                prefix: wr.chance(1, 3),
                prev_kv: wr.chance(1, 3),
                recv_delay_ms: *wr.pick(&[0u64, 0, 5, 50, 400]),
                drop_after_ms: if wr.chance(1, 5) { wr.range(200, 5000) } else { 0 },
            })
            .collect()
    } else {
        Vec::new()
    };
    let quiet_ms = (10 * knobs.election_max).max(3 * knobs.general_timeout_ms).clamp(8_000, 60_000);
    Plan {
        seed,
        scenario: scenario.to_string(),
        voters,
        learners,
        knobs,
        horizon_ms: horizon,
        quiet_ms,
        faults,
        clients,
        keys,
        masked: masked.to_vec(),
        watchers,
    }
}

//! Per-key linearizability checker (Wing–Gong search with memoisation) for a register
//! with put / delete / CAS / read. Indeterminate operations may take effect at any point
//! after their invocation, or never (DESIGN.md §6).

use std::collections::HashSet;

#[derive(Clone, Debug, PartialEq, Eq)]
pub enum LOp {
    Put(u32),
    Delete,
    /// expected (None = absent), new value, observed outcome (None if indeterminate)
    Cas(Option<u32>, u32, Option<bool>),
    /// observed value (None = absent)
    Read(Option<u32>),
}

#[derive(Clone, Debug)]
pub struct LEvent {
    pub id: u64,
    pub op: LOp,
    pub invoke: u64,
    /// return sequence number; u64::MAX for indeterminate operations
    pub ret: u64,
}

#[derive(Debug, PartialEq, Eq)]
pub enum LinResult {
    Ok,
    Violation,
    /// search budget exhausted or history over the caps: not checked
    Capped,
}

fn step(state: Option<u32>, op: &LOp) -> Option<Option<u32>> {
    match op {
        LOp::Put(v) => Some(Some(*v)),
        LOp::Delete => Some(None),
        LOp::Cas(exp, new, outcome) => {
            let would = state == *exp;
            match outcome {
                Some(o) if *o != would => None,
                _ => Some(if would { Some(*new) } else { state }),
            }
        }
        LOp::Read(v) => {
            if *v == state {
                Some(state)
            } else {
                None
            }
        }
    }
}

pub const MAX_OPS: usize = 60;
pub const MAX_INDETERMINATE: usize = 12;

pub fn check(events: &[LEvent], initial: Option<u32>, budget: u64) -> LinResult {
    let n = events.len();
    if n == 0 {
        return LinResult::Ok;
    }
    if n > MAX_OPS || n > 63 {
        return LinResult::Capped;
    }
    let indet = events.iter().filter(|e| e.ret == u64::MAX).count();
    if indet > MAX_INDETERMINATE {
        return LinResult::Capped;
    }
    let required: u64 = events.iter().enumerate().filter(|(_, e)| e.ret != u64::MAX).fold(0, |m, (i, _)| m | (1 << i));
    let mut seen: HashSet<(u64, Option<u32>)> = HashSet::new();
    let mut steps = 0u64;
    // iterative DFS
    let mut stack: Vec<(u64, Option<u32>)> = vec![(0, initial)];
    while let Some((mask, state)) = stack.pop() {
        if mask & required == required {
            return LinResult::Ok;
        }
        if !seen.insert((mask, state)) {
            continue;
        }
        steps += 1;
        if steps > budget {
            return LinResult::Capped;
        }
        // minimal return among un-linearized required ops
        let mut min_ret = u64::MAX;
        for (i, e) in events.iter().enumerate() {
            if mask & (1 << i) == 0 && e.ret < min_ret {
                min_ret = e.ret;
            }
        }
        for (i, e) in events.iter().enumerate() {
            if mask & (1 << i) != 0 {
                continue;
            }
            if e.invoke > min_ret {
                continue;
            }
            if let Some(ns) = step(state, &e.op) {
                stack.push((mask | (1 << i), ns));
            }
        }
    }
    LinResult::Violation
}

#[cfg(test)]
mod tests {
    use super::*;
    fn ev(id: u64, op: LOp, i: u64, r: u64) -> LEvent {
        LEvent { id, op, invoke: i, ret: r }
    }
    #[test]
    fn simple_ok() {
        let h = vec![ev(1, LOp::Put(1), 1, 2), ev(2, LOp::Read(Some(1)), 3, 4)];
        assert_eq!(check(&h, None, 100000), LinResult::Ok);
    }
    #[test]
    fn stale_read() {
        let h = vec![ev(1, LOp::Put(1), 1, 2), ev(2, LOp::Put(2), 3, 4), ev(3, LOp::Read(Some(1)), 5, 6)];
        assert_eq!(check(&h, None, 100000), LinResult::Violation);
    }
    #[test]
    fn indeterminate_write_may_apply_later() {
        let h = vec![ev(1, LOp::Put(1), 1, u64::MAX), ev(2, LOp::Read(None), 3, 4), ev(3, LOp::Read(Some(1)), 5, 6)];
        assert_eq!(check(&h, None, 100000), LinResult::Ok);
    }
    #[test]
    fn concurrent_ok() {
        let h = vec![ev(1, LOp::Put(1), 1, 10), ev(2, LOp::Read(None), 2, 3), ev(3, LOp::Read(Some(1)), 4, 5)];
        assert_eq!(check(&h, None, 100000), LinResult::Ok);
    }
    #[test]
    fn cas_outcome() {
        let h = vec![ev(1, LOp::Put(1), 1, 2), ev(2, LOp::Cas(Some(2), 3, Some(true)), 3, 4)];
        assert_eq!(check(&h, None, 100000), LinResult::Violation);
    }
}

//! Simulated network and `SimTransport` (DESIGN.md §3.5).

use std::collections::{HashMap, HashSet};
use std::marker::PhantomData;
use std::sync::atomic::{AtomicBool, Ordering};
use std::sync::{Arc, Mutex};
use std::time::Duration;

use async_trait::async_trait;
use d_engine_core::alias::{MOF, SMHOF};
use d_engine_core::{
    AppendResult, BackoffPolicy, ClusterUpdateResult, Error, InboundEvent, InstallSnapshotBackoffPolicy, MaybeCloneOneshot,
    Membership, NetworkError, RaftNodeConfig, RaftOneshot, ReplicationStream, Result, RetryPolicies, SnapshotConfig,
    SnapshotError, StateMachineHandler, Transport, TypeConfig, VoteResult, grpc_task_with_timeout_and_exponential_backoff,
};
use d_engine_proto::server::cluster::{
    ClusterConfChangeRequest, ClusterConfUpdateResponse, JoinRequest, JoinResponse, LeaderDiscoveryRequest,
    LeaderDiscoveryResponse,
};
use d_engine_proto::server::election::{VoteRequest, VoteResponse};
use d_engine_proto::server::replication::{AppendEntriesRequest, AppendEntriesResponse};
use d_engine_proto::server::storage::{SnapshotAck, SnapshotChunk, SnapshotMetadata, SnapshotResponse};
use futures::{FutureExt, StreamExt};
use tokio::sync::{mpsc, watch};
use tokio::time::Instant;
use tonic::Status;

use crate::oracle::OracleRef;
use crate::rng::keyed;

#[derive(Clone, Copy, Debug, PartialEq, Eq, Hash)]
#[repr(u64)]
pub enum Kind {
    VoteReq = 1,
    VoteResp,
    StreamOpen,
    StreamOpenResp,
    Append,
    AppendResp,
    SnapChunk,
    SnapResp,
    Join,
    JoinResp,
    Discover,
    DiscoverResp,
    ConfUpdate,
    ConfUpdateResp,
    SnapPullAck,
    SnapPullChunk,
}

/// What the transport needs from a node incarnation. Implemented by the harness over the
/// real `Node<T>` (unary handlers = the real tonic service methods).
#[async_trait]
pub trait Endpoint: Send + Sync {
    fn is_rpc_ready(&self) -> bool;
    fn event_tx(&self) -> mpsc::Sender<InboundEvent>;
    fn node_config(&self) -> Arc<RaftNodeConfig>;
    fn shutdown_rx(&self) -> watch::Receiver<()>;
    fn group(&self) -> u64;
    async fn request_vote(&self, req: VoteRequest) -> std::result::Result<VoteResponse, Status>;
    async fn join_cluster(&self, req: JoinRequest) -> std::result::Result<JoinResponse, Status>;
    async fn discover_leader(&self, req: LeaderDiscoveryRequest) -> std::result::Result<LeaderDiscoveryResponse, Status>;
    async fn update_cluster_conf(&self, req: ClusterConfChangeRequest) -> std::result::Result<ClusterConfUpdateResponse, Status>;
}

#[derive(Clone, Debug)]
pub struct NetConfig {
    pub latency_ms: (u64, u64),
    pub drop_per_mille: u64,
    /// extra one-way delay on directed links
    pub slow_links: HashMap<(u32, u32), u64>,
    /// how long a stalled stream survives before it breaks (keepalive), ms
    pub keepalive_ms: u64,
    pub datagram: bool,
    pub dup_per_mille: u64,
}

impl Default for NetConfig {
    fn default() -> Self {
        NetConfig {
            latency_ms: (1, 5),
            drop_per_mille: 0,
            slow_links: HashMap::new(),
            keepalive_ms: 3000,
            datagram: false,
            dup_per_mille: 0,
        }
    }
}

#[derive(Default, Debug, Clone)]
pub struct NetStats {
    pub sent: u64,
    pub delivered: u64,
    pub dropped_random: u64,
    pub dropped_partition: u64,
    pub refused_down: u64,
    pub duplicated: u64,
    pub streams_opened: u64,
    pub streams_broken: u64,
    pub stream_stalls: u64,
    pub snapshots_pushed: u64,
    pub snapshots_push_failed: u64,
    pub slow_link_msgs: u64,
    /// AppendEntries requests that were in flight when their stream was reset and still reached the peer
    pub delivered_after_break: u64,
}

struct Slot {
    ep: Option<Arc<dyn Endpoint>>,
    inc: u64,
}

pub struct StreamState {
    pub src: u32,
    pub dst: u32,
    pub broken: AtomicBool,
    pub clean: AtomicBool,
}

pub struct NetInner {
    pub seed: u64,
    slots: HashMap<u32, Slot>,
    pub blocked: HashSet<(u32, u32)>,
    link_seq: HashMap<(u32, u32, u64), u64>,
    pub cfg: NetConfig,
    pub stats: NetStats,
    pub streams: Vec<Arc<StreamState>>,
}

#[derive(Clone)]
pub struct Net {
    pub inner: Arc<Mutex<NetInner>>,
    pub oracle: OracleRef,
}

enum Target {
    Up(Arc<dyn Endpoint>),
    Down,
    Blocked,
}

impl Net {
    pub fn new(seed: u64, cfg: NetConfig, oracle: OracleRef) -> Net {
        Net {
            inner: Arc::new(Mutex::new(NetInner {
                seed,
                slots: HashMap::new(),
                blocked: HashSet::new(),
                link_seq: HashMap::new(),
                cfg,
                stats: NetStats::default(),
                streams: Vec::new(),
            })),
            oracle,
        }
    }

    pub fn register(&self, node: u32, inc: u64, ep: Arc<dyn Endpoint>) {
        self.inner.lock().unwrap().slots.insert(node, Slot { ep: Some(ep), inc });
    }

    /// Node went down (any kind of stop). Its streams break.
    pub fn unregister(&self, node: u32) {
        let mut g = self.inner.lock().unwrap();
        if let Some(s) = g.slots.get_mut(&node) {
            s.ep = None;
        }
        for st in g.streams.iter() {
            if (st.src == node || st.dst == node) && !st.broken.swap(true, Ordering::SeqCst) {
                // counted when noticed by the pipe tasks
            }
        }
        g.streams.retain(|s| !s.broken.load(Ordering::SeqCst));
    }

    pub fn alive(&self, node: u32, inc: u64) -> bool {
        self.inner.lock().unwrap().slots.get(&node).is_some_and(|s| s.ep.is_some() && s.inc == inc)
    }

    pub fn block(&self, a: u32, b: u32) {
        self.inner.lock().unwrap().blocked.insert((a, b));
    }
    pub fn unblock_all(&self) {
        self.inner.lock().unwrap().blocked.clear();
    }
    pub fn is_blocked(&self, a: u32, b: u32) -> bool {
        self.inner.lock().unwrap().blocked.contains(&(a, b))
    }
    /// Symmetric partition between two groups.
    pub fn partition(&self, left: &[u32], right: &[u32]) {
        let mut g = self.inner.lock().unwrap();
        for a in left {
            for b in right {
                g.blocked.insert((*a, *b));
                g.blocked.insert((*b, *a));
            }
        }
    }
    pub fn break_streams(&self, a: u32, b: u32) -> usize {
        let g = self.inner.lock().unwrap();
        let mut n = 0;
        for st in g.streams.iter() {
            if ((st.src == a && st.dst == b) || (st.src == b && st.dst == a)) && !st.broken.swap(true, Ordering::SeqCst) {
                n += 1;
            }
        }
        n
    }

    /// Decide fate and one-way delay of the next message on (src,dst,kind). Keyed, not sequential.
    fn leg(&self, src: u32, dst: u32, kind: Kind, lossy: bool) -> Option<u64> {
        let mut g = self.inner.lock().unwrap();
        let seq = {
            let e = g.link_seq.entry((src, dst, kind as u64)).or_insert(0);
            *e += 1;
            *e
        };
        g.stats.sent += 1;
        let h = keyed(g.seed, &[src as u64, dst as u64, kind as u64, seq]);
        if lossy && g.cfg.drop_per_mille > 0 && h % 1000 < g.cfg.drop_per_mille {
            g.stats.dropped_random += 1;
            return None;
        }
        if g.blocked.contains(&(src, dst)) && lossy {
            g.stats.dropped_partition += 1;
            return None;
        }
        let (lo, hi) = g.cfg.latency_ms;
        let mut d = if hi > lo { lo + (h >> 24) % (hi - lo + 1) } else { lo };
        if let Some(x) = g.cfg.slow_links.get(&(src, dst)) {
            d += *x;
            g.stats.slow_link_msgs += 1;
        }
        Some(d)
    }

    fn target(&self, src: u32, dst: u32) -> Target {
        let mut g = self.inner.lock().unwrap();
        if g.blocked.contains(&(src, dst)) {
            g.stats.dropped_partition += 1;
            return Target::Blocked;
        }
        match g.slots.get(&dst).and_then(|s| s.ep.clone()) {
            Some(ep) => {
                g.stats.delivered += 1;
                Target::Up(ep)
            }
            None => {
                g.stats.refused_down += 1;
                Target::Down
            }
        }
    }

    /// One attempt of a unary RPC. A lost request or response never completes (the caller's
    /// timeout decides); a down target answers `Unavailable` after a round trip.
    pub async fn unary<Resp, F, Fut>(
        &self,
        src: (u32, u64),
        dst: u32,
        kinds: (Kind, Kind),
        call: F,
    ) -> std::result::Result<Resp, Status>
    where
        F: FnOnce(Arc<dyn Endpoint>) -> Fut,
        Fut: std::future::Future<Output = std::result::Result<Resp, Status>>,
    {
        if !self.alive(src.0, src.1) {
            return std::future::pending().await;
        }
        let Some(d1) = self.leg(src.0, dst, kinds.0, true) else {
            return std::future::pending().await;
        };
        tokio::time::sleep(Duration::from_millis(d1)).await;
        let ep = match self.target(src.0, dst) {
            Target::Blocked => return std::future::pending().await,
            Target::Down => {
                tokio::time::sleep(Duration::from_millis(d1)).await;
                return Err(Status::unavailable("connection refused (peer down)"));
            }
            Target::Up(ep) => ep,
        };
        let resp = call(ep).await;
        let Some(d2) = self.leg(dst, src.0, kinds.1, true) else {
            return std::future::pending().await;
        };
        tokio::time::sleep(Duration::from_millis(d2)).await;
        if self.is_blocked(dst, src.0) {
            self.inner.lock().unwrap().stats.dropped_partition += 1;
            return std::future::pending().await;
        }
        if !self.alive(src.0, src.1) {
            return std::future::pending().await;
        }
        resp
    }
}

// ───────────────────────────── transport ─────────────────────────────

pub struct SimTransport<T: TypeConfig> {
    pub me: u32,
    pub inc: u64,
    pub net: Net,
    pub peer_failure_tx: mpsc::Sender<u32>,
    pub peer_success_tx: mpsc::Sender<u32>,
    pub cap: u64,
    _p: PhantomData<T>,
}

impl<T: TypeConfig> SimTransport<T> {
    pub fn new(me: u32, inc: u64, net: Net, peer_failure_tx: mpsc::Sender<u32>, peer_success_tx: mpsc::Sender<u32>, cap: u64) -> Self {
        SimTransport { me, inc, net, peer_failure_tx, peer_success_tx, cap, _p: PhantomData }
    }
}

fn tonic_err(s: Status) -> Error {
    NetworkError::TonicStatusError(Box::new(s)).into()
}

#[async_trait]
impl<T: TypeConfig> Transport<T> for SimTransport<T> {
    async fn send_cluster_update(
        &self,
        req: ClusterConfChangeRequest,
        retry: &RetryPolicies,
        membership: Arc<MOF<T>>,
    ) -> Result<ClusterUpdateResult> {
        let peers = membership.voters().await;
        if peers.is_empty() {
            return Err(NetworkError::EmptyPeerList { request_type: "send_cluster_update" }.into());
        }
        let mut tasks = futures::stream::FuturesUnordered::new();
        let mut peer_ids = HashSet::new();
        for peer in peers {
            let peer_id = peer.id;
            if peer_id == self.me || !peer_ids.insert(peer_id) {
                continue;
            }
            let net = self.net.clone();
            let src = (self.me, self.inc);
            let req_clone = req.clone();
            let closure = move || {
                let net = net.clone();
                let req = req_clone.clone();
                async move {
                    net.unary(src, peer_id, (Kind::ConfUpdate, Kind::ConfUpdateResp), move |ep| async move {
                        ep.update_cluster_conf(req).await
                    })
                    .await
                    .map(tonic::Response::new)
                }
            };
            let policy = retry.membership;
            let h = tokio::spawn(async move {
                grpc_task_with_timeout_and_exponential_backoff("update_cluster_conf", closure, policy)
                    .await
                    .map(|r| r.into_inner())
            });
            tasks.push(h.boxed());
        }
        let mut responses = Vec::new();
        while let Some(r) = tasks.next().await {
            match r {
                Ok(r) => responses.push(r),
                Err(e) => responses.push(Err(Error::from(NetworkError::TaskFailed(e)))),
            }
        }
        Ok(ClusterUpdateResult { peer_ids, responses })
    }

    async fn send_append_requests(
        &self,
        requests: Vec<(u32, AppendEntriesRequest)>,
        retry: &RetryPolicies,
        membership: Arc<MOF<T>>,
        compress: bool,
    ) -> Result<AppendResult> {
        if requests.is_empty() {
            return Err(NetworkError::EmptyPeerList { request_type: "send_append_requests" }.into());
        }
        let mut peer_ids = HashSet::new();
        let mut futs = Vec::new();
        for (peer, req) in requests {
            if peer == self.me || !peer_ids.insert(peer) {
                continue;
            }
            futs.push(self.send_append_request(peer, req, retry, membership.clone(), compress));
        }
        let responses = futures::future::join_all(futs).await;
        Ok(AppendResult { peer_ids, responses })
    }

    async fn send_vote_requests(&self, req: VoteRequest, retry: &RetryPolicies, membership: Arc<MOF<T>>) -> Result<VoteResult> {
        let peers = membership.voters().await;
        if peers.is_empty() {
            return Err(NetworkError::EmptyPeerList { request_type: "send_vote_requests" }.into());
        }
        self.net.oracle.lock().unwrap().on_vote_request_sent(self.me, &req, peers.iter().map(|p| p.id).filter(|i| *i != self.me).collect());
        let mut tasks = futures::stream::FuturesUnordered::new();
        let mut peer_ids = HashSet::new();
        for peer in peers {
            let peer_id = peer.id;
            if peer_id == self.me || !peer_ids.insert(peer_id) {
                continue;
            }
            let net = self.net.clone();
            let src = (self.me, self.inc);
            let closure = move || {
                let net = net.clone();
                async move {
                    let oracle = net.oracle.clone();
                    net.unary(src, peer_id, (Kind::VoteReq, Kind::VoteResp), move |ep| async move {
                        let r = ep.request_vote(req).await;
                        if let Ok(resp) = &r {
                            oracle.lock().unwrap().on_vote_response(peer_id, req.candidate_id, req.term, resp);
                        }
                        r
                    })
                    .await
                    .map(tonic::Response::new)
                }
            };
            let policy = retry.election;
            let h = tokio::spawn(async move {
                grpc_task_with_timeout_and_exponential_backoff("request_vote", closure, policy)
                    .await
                    .map(|r| r.into_inner())
            });
            tasks.push(h.boxed());
        }
        let mut responses = Vec::new();
        while let Some(r) = tasks.next().await {
            match r {
                Ok(r) => responses.push(r),
                Err(e) => responses.push(Err(Error::from(NetworkError::TaskFailed(e)))),
            }
        }
        Ok(VoteResult { peer_ids, responses })
    }

    async fn join_cluster(&self, leader_id: u32, request: JoinRequest, retry: BackoffPolicy, _m: Arc<MOF<T>>) -> Result<JoinResponse> {
        let net = self.net.clone();
        let src = (self.me, self.inc);
        let closure = move || {
            let net = net.clone();
            let req = request.clone();
            async move {
                net.unary(src, leader_id, (Kind::Join, Kind::JoinResp), move |ep| async move { ep.join_cluster(req).await })
                    .await
                    .map(tonic::Response::new)
            }
        };
        let r = grpc_task_with_timeout_and_exponential_backoff("join_cluster", closure, retry).await?;
        Ok(r.into_inner())
    }

    async fn discover_leader(
        &self,
        request: LeaderDiscoveryRequest,
        _compress: bool,
        membership: Arc<MOF<T>>,
    ) -> Result<Vec<LeaderDiscoveryResponse>> {
        let ids: Vec<u32> = membership.voters().await.iter().map(|m| m.id).collect();
        let cfg_timeout = 1000u64;
        let mut out = Vec::new();
        let mut futs = Vec::new();
        for id in ids {
            let net = self.net.clone();
            let src = (self.me, self.inc);
            let req = request.clone();
            futs.push(async move {
                tokio::time::timeout(
                    Duration::from_millis(cfg_timeout),
                    net.unary(src, id, (Kind::Discover, Kind::DiscoverResp), move |ep| async move { ep.discover_leader(req).await }),
                )
                .await
            });
        }
        for r in futures::future::join_all(futs).await {
            if let Ok(Ok(resp)) = r {
                out.push(resp);
            }
        }
        Ok(out)
    }

    async fn send_append_request(
        &self,
        peer_id: u32,
        request: AppendEntriesRequest,
        retry: &RetryPolicies,
        _m: Arc<MOF<T>>,
        _c: bool,
    ) -> Result<AppendEntriesResponse> {
        // Unary AppendEntries (not used by the current leader implementation, which streams).
        let net = self.net.clone();
        let src = (self.me, self.inc);
        let cap = self.cap;
        let closure = move || {
            let net = net.clone();
            let req = request.clone();
            async move {
                net.oracle.lock().unwrap().on_append_sent(src.0, peer_id, &req, cap);
                net.unary(src, peer_id, (Kind::Append, Kind::AppendResp), move |ep| async move {
                    if !ep.is_rpc_ready() {
                        return Err(Status::unavailable("Service is not ready"));
                    }
                    let (tx, rx) = MaybeCloneOneshot::new();
                    ep.event_tx()
                        .send(InboundEvent::AppendEntries(req, vec![tx]))
                        .await
                        .map_err(|_| Status::internal("Event channel closed"))?;
                    let t = Duration::from_millis(ep.node_config().retry.append_entries.timeout_ms);
                    match tokio::time::timeout(t, rx).await {
                        Ok(Ok(r)) => r,
                        Ok(Err(_)) => Err(Status::deadline_exceeded("RPC channel closed")),
                        Err(_) => Err(Status::deadline_exceeded("RPC timeout exceeded")),
                    }
                })
                .await
                .map(tonic::Response::new)
            }
        };
        let r = grpc_task_with_timeout_and_exponential_backoff("append_entries", closure, retry.append_entries).await?;
        let resp = r.into_inner();
        self.net.oracle.lock().unwrap().on_append_response_delivered(self.me, peer_id, &resp, None);
        Ok(resp)
    }

    async fn send_snapshot(
        &self,
        peer_id: u32,
        metadata: SnapshotMetadata,
        smh: Arc<SMHOF<T>>,
        _m: Arc<MOF<T>>,
        config: SnapshotConfig,
    ) -> Result<()> {
        let r = self.push_snapshot(peer_id, metadata, smh, config).await;
        let mut g = self.net.inner.lock().unwrap();
        if r.is_ok() {
            g.stats.snapshots_pushed += 1;
        } else {
            g.stats.snapshots_push_failed += 1;
        }
        r
    }

    async fn request_snapshot_from_leader(
        &self,
        leader_id: u32,
        mut ack_rx: mpsc::Receiver<SnapshotAck>,
        _retry: &InstallSnapshotBackoffPolicy,
        _m: Arc<MOF<T>>,
    ) -> Result<mpsc::Receiver<SnapshotChunk>> {
        // Replica of SnapshotService::stream_snapshot over the simulated network.
        let net = self.net.clone();
        let src = (self.me, self.inc);
        let (chunk_tx_srv, mut chunk_rx_srv) = mpsc::channel::<Arc<SnapshotChunk>>(32);
        let (ack_tx_srv, ack_rx_srv) = mpsc::channel::<SnapshotAck>(32);
        let open = net
            .unary(src, leader_id, (Kind::SnapPullAck, Kind::SnapPullChunk), move |ep| async move {
                if !ep.is_rpc_ready() {
                    return Err(Status::unavailable("Service is not ready"));
                }
                let (startup_tx, startup_rx) = tokio::sync::oneshot::channel();
                ep.event_tx()
                    .send(InboundEvent::StreamSnapshot(ack_rx_srv, chunk_tx_srv, startup_tx))
                    .await
                    .map_err(|_| Status::internal("Event channel closed"))?;
                match startup_rx.await {
                    Ok(Ok(())) => Ok(()),
                    Ok(Err(s)) => Err(s),
                    Err(_) => Err(Status::internal("Core dropped startup sender")),
                }
            })
            .await;
        let open = tokio::time::timeout(Duration::from_millis(5000), async { open }).await;
        match open {
            Ok(Ok(())) => {}
            Ok(Err(s)) => return Err(tonic_err(s)),
            Err(_) => return Err(tonic_err(Status::deadline_exceeded("stream_snapshot open timeout"))),
        }
        let (tx, rx) = mpsc::channel(32);
        // acks: follower -> leader
        let net2 = net.clone();
        let me = self.me;
        tokio::spawn(async move {
            while let Some(a) = ack_rx.recv().await {
                let Some(d) = net2.leg(me, leader_id, Kind::SnapPullAck, true) else { continue };
                tokio::time::sleep(Duration::from_millis(d)).await;
                if net2.is_blocked(me, leader_id) {
                    continue;
                }
                if ack_tx_srv.send(a).await.is_err() {
                    break;
                }
            }
        });
        // chunks: leader -> follower
        let net3 = net.clone();
        tokio::spawn(async move {
            while let Some(c) = chunk_rx_srv.recv().await {
                let Some(d) = net3.leg(leader_id, me, Kind::SnapPullChunk, true) else { continue };
                tokio::time::sleep(Duration::from_millis(d)).await;
                if net3.is_blocked(leader_id, me) {
                    continue;
                }
                if tx.send((*c).clone()).await.is_err() {
                    break;
                }
            }
        });
        Ok(rx)
    }

    async fn open_replication_stream(&self, peer_id: u32, _m: Arc<MOF<T>>, _compress: bool) -> Result<ReplicationStream> {
        let net = self.net.clone();
        let src = (self.me, self.inc);
        let me = self.me;
        // Handshake: one round trip, bounded by a connect timeout.
        let hs = tokio::time::timeout(
            Duration::from_millis(1000),
            net.unary(src, peer_id, (Kind::StreamOpen, Kind::StreamOpenResp), move |ep| async move {
                if !ep.is_rpc_ready() {
                    return Err(Status::unavailable("Service is not ready"));
                }
                Ok(ep)
            }),
        )
        .await;
        let ep = match hs {
            Ok(Ok(ep)) => {
                let _ = self.peer_success_tx.try_send(peer_id);
                ep
            }
            Ok(Err(s)) => {
                let _ = self.peer_failure_tx.try_send(peer_id);
                return Err(tonic_err(s));
            }
            Err(_) => {
                let _ = self.peer_failure_tx.try_send(peer_id);
                return Err(tonic_err(Status::unavailable("connect timeout")));
            }
        };
        let st = Arc::new(StreamState { src: me, dst: peer_id, broken: AtomicBool::new(false), clean: AtomicBool::new(false) });
        {
            let mut g = net.inner.lock().unwrap();
            g.stats.streams_opened += 1;
            g.streams.push(st.clone());
        }
        let keepalive = net.inner.lock().unwrap().cfg.keepalive_ms;
        let cap = self.cap;

        let (req_tx, mut req_rx) = mpsc::channel::<AppendEntriesRequest>(128);
        let (out_tx, out_rx) = mpsc::channel::<std::result::Result<AppendEntriesResponse, Status>>(128);

        // send times of the requests in flight on this stream (responses come back in request order)
        let sent_q: Arc<Mutex<std::collections::VecDeque<u64>>> = Arc::new(Mutex::new(std::collections::VecDeque::new()));
        // client -> server pipe (FIFO with per-message delay)
        let (c2s_tx, mut c2s_rx) = mpsc::unbounded_channel::<(Instant, AppendEntriesRequest)>();
        {
            let net = net.clone();
            let st = st.clone();
            let sent_q = sent_q.clone();
            tokio::spawn(async move {
                let mut last = Instant::now();
                while let Some(req) = req_rx.recv().await {
                    if st.broken.load(Ordering::SeqCst) {
                        break;
                    }
                    net.oracle.lock().unwrap().on_append_sent(me, peer_id, &req, cap);
                    sent_q.lock().unwrap().push_back(crate::seams::vnow_ms());
                    let d = net.leg(me, peer_id, Kind::Append, false).unwrap_or(1);
                    let at = (Instant::now() + Duration::from_millis(d)).max(last);
                    last = at;
                    if c2s_tx.send((at, req)).is_err() {
                        break;
                    }
                }
                st.clean.store(true, Ordering::SeqCst);
            });
        }
        // server side: in-stream, ordered queue, forwarder (in the target's task group)
        let (srv_in_tx, mut srv_in_rx) = mpsc::unbounded_channel::<AppendEntriesRequest>();
        let (srv_out_tx, mut srv_out_rx) = mpsc::channel::<std::result::Result<AppendEntriesResponse, Status>>(128);
        let ordered_cap = ep.node_config().raft.ordered_channel_capacity;
        let (ordered_tx, mut ordered_rx) =
            mpsc::channel::<d_engine_core::MaybeCloneOneshotReceiver<std::result::Result<AppendEntriesResponse, Status>>>(ordered_cap);
        let event_tx = ep.event_tx();
        let mut shutdown = ep.shutdown_rx();
        tokio::verif::with_group(ep.group(), || {
            tokio::spawn(async move {
                loop {
                    tokio::select! {
                        biased;
                        _ = shutdown.changed() => break,
                        r = srv_in_rx.recv() => match r {
                            Some(req) => {
                                let (resp_tx, resp_rx) = MaybeCloneOneshot::new();
                                if event_tx.send(InboundEvent::AppendEntries(req, vec![resp_tx])).await.is_err() { break; }
                                if ordered_tx.send(resp_rx).await.is_err() { break; }
                            }
                            None => break,
                        }
                    }
                }
            });
            tokio::spawn(async move {
                while let Some(resp_rx) = ordered_rx.recv().await {
                    let result = match resp_rx.await {
                        Ok(Ok(resp)) => Ok(resp),
                        Ok(Err(status)) => Err(status),
                        Err(_) => Err(Status::internal("Response channel closed")),
                    };
                    if srv_out_tx.send(result).await.is_err() {
                        break;
                    }
                }
            });
        });
        // c2s deliverer
        {
            let net = net.clone();
            let st = st.clone();
            tokio::spawn(async move {
                let seed = net.inner.lock().unwrap().seed;
                let mut n_req = 0u64;
                while let Some((at, req)) = c2s_rx.recv().await {
                    n_req += 1;
                    tokio::time::sleep_until(at).await;
                    if !stall_until_open(&net, &st, me, peer_id, keepalive).await {
                        // The stream was reset while this request was in flight. If the link itself is up, the bytes
                        // may already have reached the peer, which then still processes them - late, possibly after
                        // requests of the leader's next stream, whose first request repeats these entries
                        // (reordering and duplication across reconnects). The response goes nowhere.
                        let through = !net.is_blocked(me, peer_id) && keyed(seed, &[me as u64, peer_id as u64, n_req, at.elapsed().as_millis() as u64 & 0, 0xAF]) % 2 == 0;
                        if through {
                            let extra = keyed(seed, &[me as u64, peer_id as u64, n_req, 0xB0]) % 60;
                            tokio::time::sleep(Duration::from_millis(extra)).await;
                            net.inner.lock().unwrap().stats.delivered_after_break += 1;
                            if srv_in_tx.send(req).is_err() {
                                break;
                            }
                            continue;
                        }
                        break;
                    }
                    net.inner.lock().unwrap().stats.delivered += 1;
                    if srv_in_tx.send(req).is_err() {
                        st.broken.store(true, Ordering::SeqCst);
                        break;
                    }
                }
                // dropping srv_in_tx ends the server's in-stream
            });
        }
        // server -> client pipe
        let (s2c_tx, mut s2c_rx) = mpsc::unbounded_channel::<(Instant, std::result::Result<AppendEntriesResponse, Status>)>();
        {
            let net = net.clone();
            let st = st.clone();
            tokio::spawn(async move {
                let mut last = Instant::now();
                loop {
                    let item = srv_out_rx.recv().await;
                    let d = net.leg(peer_id, me, Kind::AppendResp, false).unwrap_or(1);
                    let at = (Instant::now() + Duration::from_millis(d)).max(last);
                    last = at;
                    match item {
                        Some(r) => {
                            if s2c_tx.send((at, r)).is_err() {
                                break;
                            }
                        }
                        None => {
                            // server side ended: clean close if the client closed first, else a broken pipe
                            if !st.clean.load(Ordering::SeqCst) {
                                st.broken.store(true, Ordering::SeqCst);
                                let _ = s2c_tx.send((at, Err(Status::unavailable("stream reset by peer"))));
                            }
                            break;
                        }
                    }
                }
            });
        }
        {
            let net = net.clone();
            let st = st.clone();
            tokio::spawn(async move {
                loop {
                    // poll for injected breaks while idle
                    let item = tokio::select! {
                        x = s2c_rx.recv() => x,
                        _ = wait_broken(&st) => {
                            net.inner.lock().unwrap().stats.streams_broken += 1;
                            let _ = out_tx.send(Err(Status::unavailable("stream broken"))).await;
                            break;
                        }
                    };
                    let Some((at, r)) = item else { break };
                    tokio::time::sleep_until(at).await;
                    if !stall_until_open(&net, &st, peer_id, me, keepalive).await {
                        net.inner.lock().unwrap().stats.streams_broken += 1;
                        let _ = out_tx.send(Err(Status::unavailable("stream broken"))).await;
                        break;
                    }
                    if let Ok(resp) = &r {
                        let req_sent = sent_q.lock().unwrap().pop_front();
                        net.oracle.lock().unwrap().on_append_response_delivered(me, peer_id, resp, req_sent);
                    }
                    let is_err = r.is_err();
                    if out_tx.send(r).await.is_err() {
                        break;
                    }
                    if is_err {
                        break;
                    }
                }
            });
        }
        Ok(ReplicationStream { sender: req_tx, receiver: tokio_stream::wrappers::ReceiverStream::new(out_rx).boxed() })
    }
}

async fn wait_broken(st: &Arc<StreamState>) {
    loop {
        if st.broken.load(Ordering::SeqCst) {
            return;
        }
        tokio::time::sleep(Duration::from_millis(20)).await;
    }
}

/// Wait while the directed link is partitioned. Returns false if the stream is (or becomes) broken.
async fn stall_until_open(net: &Net, st: &Arc<StreamState>, from: u32, to: u32, keepalive_ms: u64) -> bool {
    let mut waited = 0u64;
    let mut counted = false;
    loop {
        if st.broken.load(Ordering::SeqCst) {
            return false;
        }
        if !net.is_blocked(from, to) {
            return true;
        }
        if !counted {
            net.inner.lock().unwrap().stats.stream_stalls += 1;
            counted = true;
        }
        if waited >= keepalive_ms {
            st.broken.store(true, Ordering::SeqCst);
            return false;
        }
        tokio::time::sleep(Duration::from_millis(25)).await;
        waited += 25;
    }
}

impl<T: TypeConfig> SimTransport<T> {
    /// Replica of `BackgroundSnapshotTransfer::run_push_transfer` + `SnapshotService::install_snapshot`.
    async fn push_snapshot(&self, peer_id: u32, metadata: SnapshotMetadata, smh: Arc<SMHOF<T>>, config: SnapshotConfig) -> Result<()> {
        let mut data_stream = smh.load_snapshot_data(metadata).await?;
        let first_chunk = match data_stream.next().await {
            Some(Ok(chunk)) if chunk.seq == 0 && chunk.metadata.is_some() => chunk,
            Some(Ok(_)) => return Err(SnapshotError::InvalidFirstChunk.into()),
            Some(Err(e)) => return Err(e),
            None => return Err(SnapshotError::EmptySnapshot.into()),
        };
        let (request_tx, mut request_rx) = mpsc::channel::<Arc<SnapshotChunk>>(config.push_queue_size);
        request_tx
            .send(Arc::new(first_chunk))
            .await
            .map_err(|e| NetworkError::SingalSendFailed(format!("{e:?}")))?;
        let (error_tx, mut error_rx) = mpsc::channel::<Error>(1);
        let bg_cfg = config.clone();
        tokio::spawn(async move {
            let result: Result<()> = async {
                while let Some(chunk) = data_stream.next().await {
                    let chunk = Arc::new(chunk?);
                    let mut attempt = 0;
                    loop {
                        match request_tx.try_send(chunk.clone()) {
                            Ok(_) => break,
                            Err(mpsc::error::TrySendError::Full(_)) => {
                                if attempt >= bg_cfg.snapshot_push_max_retry {
                                    return Err(SnapshotError::Backpressure.into());
                                }
                                if bg_cfg.max_bandwidth_mbps > 0 {
                                    let secs = chunk.data.len() as f64 * 8.0 / (bg_cfg.max_bandwidth_mbps as f64 * 1_000_000.0);
                                    tokio::time::sleep(Duration::from_secs_f64(secs)).await;
                                }
                                attempt += 1;
                            }
                            Err(_) => return Err(SnapshotError::ReceiverDisconnected.into()),
                        }
                    }
                }
                Ok(())
            }
            .await;
            if let Err(e) = result {
                let _ = error_tx.send(e).await;
            }
        });

        let net = self.net.clone();
        let src = (self.me, self.inc);
        let me = self.me;
        let grpc_fut = async move {
            // open the client-streaming call
            net.unary(src, peer_id, (Kind::SnapChunk, Kind::SnapResp), move |ep| async move {
                if !ep.is_rpc_ready() {
                    return Err(Status::unavailable("Service is not ready"));
                }
                let (resp_tx, resp_rx) = MaybeCloneOneshot::new();
                let (tx, rx) = mpsc::channel::<SnapshotChunk>(32);
                // wire: chunks in order, each with its own delay; a partition stalls then breaks
                let feeder = async move {
                    while let Some(c) = request_rx.recv().await {
                        if tx.send((*c).clone()).await.is_err() {
                            break;
                        }
                    }
                };
                let group = ep.group();
                tokio::verif::with_group(group, || tokio::spawn(feeder));
                ep.event_tx()
                    .send(InboundEvent::InstallSnapshotChunk(rx, resp_tx))
                    .await
                    .map_err(|_| Status::internal("Event channel closed"))?;
                let t = Duration::from_millis(ep.node_config().raft.snapshot_rpc_timeout_ms);
                let r: std::result::Result<SnapshotResponse, Status> = match tokio::time::timeout(t, resp_rx).await {
                    Ok(Ok(r)) => r,
                    Ok(Err(_)) => Err(Status::deadline_exceeded("RPC channel closed")),
                    Err(_) => Err(Status::deadline_exceeded("RPC timeout exceeded")),
                };
                r
            })
            .await
        };
        tokio::pin!(grpc_fut);
        let timeout_duration = Duration::from_millis(config.push_timeout_in_ms);
        let timeout_fut = tokio::time::sleep(timeout_duration);
        tokio::pin!(timeout_fut);
        let mut bg_done = false;
        loop {
            tokio::select! {
                bg = error_rx.recv(), if !bg_done => {
                    match bg { Some(e) => return Err(e), None => { bg_done = true; continue; } }
                }
                response = &mut grpc_fut => {
                    return match response {
                        Ok(r) => if r.success { Ok(()) } else { Err(SnapshotError::RemoteRejection.into()) },
                        Err(e) => Err(tonic_err(e)),
                    };
                }
                _ = &mut timeout_fut => {
                    return Err(NetworkError::Timeout { node_id: me, duration: timeout_duration }.into());
                }
            }
        }
    }
}

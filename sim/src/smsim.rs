//! E3 `smsim`: one real state machine (File / RocksDB) under command plans with crashes
//! (DESIGN.md §7: C15, C22, C23). Every segment of a plan runs in a child process; a
//! segment that ends in `Crash` aborts the child (no destructors), the parent then reopens
//! the directory, checks the recovered state, re-applies what a node would re-apply and
//! closes gracefully before the next segment.

use std::collections::{BTreeMap, HashMap};
use std::path::{Path, PathBuf};
use std::sync::Arc;
use std::time::Duration;

use bytes::Bytes;
use d_engine_core::{ApplyEntry, Command, StateMachine};
use d_engine_proto::common::LogId;
use d_engine_server::storage::TtlLease;
use d_engine_server::{FileStateMachine, RocksDBStateMachine};
use serde::{Deserialize, Serialize};
use serde_json::{Value, json};

use crate::oracle::{Oracle, OracleRef};
use crate::rng::Rng;

#[derive(Serialize, Deserialize, Clone, Debug, PartialEq)]
#[serde(tag = "c")]
pub enum Cmd {
    Put { k: u8, v: u8 },
    PutTtl { k: u8, v: u8, ttl_s: u64 },
    Del { k: u8 },
    /// exp: 255 = absent, otherwise value id
    Cas { k: u8, exp: u8, v: u8 },
    Noop,
}

#[derive(Serialize, Deserialize, Clone, Debug, PartialEq)]
#[serde(tag = "op")]
pub enum SOp {
    Chunk { cmds: Vec<Cmd> },
    Advance { ms: u64 },
    Cleanup,
    /// C16: a second instance of the same engine ("leader") applies everything this node has applied plus `extra`,
    /// generates a snapshot at that boundary, and this node installs it (apply_snapshot_from_file)
    Install { extra: Vec<Cmd> },
}

#[derive(Serialize, Deserialize, Clone, Debug, PartialEq)]
pub enum End {
    Crash,
    Graceful,
    Last,
}

#[derive(Serialize, Deserialize, Clone, Debug)]
pub struct Segment {
    pub ops: Vec<SOp>,
    pub end: End,
    /// wall-clock time that passes while the process is down
    #[serde(default)]
    pub down_ms: u64,
    /// crash segments: abort at the n-th guarded crash point reached inside the engine
    /// (open/recovery included) instead of after the last op
    #[serde(default)]
    pub crash_point: Option<u64>,
}

#[derive(Serialize, Deserialize, Clone, Debug)]
pub struct SmPlan {
    pub seed: u64,
    pub mode: String,
    pub engine: String,
    pub segments: Vec<Segment>,
}

const KEYS: [&str; 3] = ["k0", "k1/a", "k1/b"];
fn key(k: u8) -> Bytes {
    Bytes::from(KEYS[k as usize % 3])
}
fn val(v: u8) -> Bytes {
    match v % 5 {
        4 => Bytes::new(), // empty value
        x => Bytes::from(format!("v{x}")),
    }
}

pub fn gen_plan(seed: u64, mode: &str) -> SmPlan {
    let mut r = Rng::new(seed ^ 0x53_4D);
    let engine = (*r.pick(&["file", "rocksdb"])).to_string();
    let crash_mode = mode == "c15" || mode == "c16";
    let n_seg = if crash_mode { r.range(2, 4) } else { r.range(1, 3) };
    let mut segments = Vec::new();
    for s in 0..n_seg {
        let mut ops = Vec::new();
        for _ in 0..r.range(1, if crash_mode { 5 } else { 7 }) {
            let roll = r.below(100);
            let ttl_mode = mode == "c23";
            if mode == "c16" && roll >= 86 {
                let mut extra = Vec::new();
                for _ in 0..r.range(0, 5) {
                    let k = r.below(3) as u8;
                    let v = r.below(5) as u8;
                    extra.push(match r.below(100) {
                        0..=39 => Cmd::Put { k, v },
                        40..=49 => Cmd::PutTtl { k, v, ttl_s: r.range(1, 4) },
                        50..=69 => Cmd::Del { k },
                        _ => Cmd::Cas { k, exp: if r.chance(1, 4) { 255 } else { r.below(5) as u8 }, v },
                    });
                }
                ops.push(SOp::Install { extra });
                continue;
            }
            if crash_mode && roll >= 60 && roll < 85 {
                // long enough for the File engine's time-based checkpoint to be due at the next apply
                ops.push(SOp::Advance { ms: 11000 });
            } else if roll < (if ttl_mode { 55 } else { 85 }) {
                let mut cmds = Vec::new();
                for _ in 0..r.range(1, 6) {
                    let c = r.below(100);
                    let k = r.below(3) as u8;
                    let v = r.below(5) as u8;
                    cmds.push(match c {
                        0..=34 => Cmd::Put { k, v },
                        35..=49 => {
                            if ttl_mode || r.chance(1, 3) { Cmd::PutTtl { k, v, ttl_s: r.range(1, 4) } } else { Cmd::Put { k, v } }
                        }
                        50..=64 => Cmd::Del { k },
                        65..=94 => Cmd::Cas { k, exp: if r.chance(1, 4) { 255 } else { r.below(5) as u8 }, v },
                        _ => Cmd::Noop,
                    });
                }
                ops.push(SOp::Chunk { cmds });
            } else if roll < 93 {
                ops.push(SOp::Advance { ms: *r.pick(&[10u64, 500, 1000, 1500, 3000, 11000, 11000]) });
            } else {
                ops.push(SOp::Cleanup);
            }
            if ttl_mode && r.chance(1, 3) {
                ops.push(SOp::Advance { ms: *r.pick(&[900u64, 1100, 2500, 4100]) });
                ops.push(SOp::Cleanup);
            }
        }
        let end = if s + 1 == n_seg { End::Last } else if r.chance(if crash_mode { 6 } else { 2 }, if crash_mode { 7 } else { 3 }) { End::Crash } else { End::Graceful };
        let down_ms = if r.chance(1, 3) { *r.pick(&[500u64, 2000, 5000]) } else { 0 };
        let crash_point = if end == End::Crash && crash_mode && r.chance(3, 4) {
            Some(r.range(1, 12))
        } else if end == End::Crash && r.chance(1, 2) { Some(if r.chance(1, 2) { r.range(1, 5) } else { r.range(5, 24) }) } else { None };
        segments.push(Segment { ops, end, down_ms, crash_point });
    }
    SmPlan { seed, mode: mode.to_string(), engine, segments }
}

// ───────────────────────── reference model ─────────────────────────

#[derive(Clone, Debug, PartialEq)]
pub enum Ttl {
    None,
    Due(u64),
    /// the engine was seen to disagree earlier, or the deadline was re-armed by a replay
    Unknown,
}

pub type Model = BTreeMap<Bytes, (Bytes, Ttl)>;

/// The documented semantics (C22, C23): put/delete are blind writes, CAS succeeds iff
/// current == expected with absent matching absent; any write without a TTL (plain put,
/// successful CAS) and any delete cancels an earlier TTL.
pub fn model_apply(m: &mut Model, c: &Cmd, now_ms: u64) -> bool {
    match c {
        Cmd::Noop => true,
        Cmd::Put { k, v } => {
            m.insert(key(*k), (val(*v), Ttl::None));
            true
        }
        Cmd::PutTtl { k, v, ttl_s } => {
            m.insert(key(*k), (val(*v), Ttl::Due(now_ms + ttl_s * 1000)));
            true
        }
        Cmd::Del { k } => {
            m.remove(&key(*k));
            true
        }
        Cmd::Cas { k, exp, v } => {
            let ok = match (m.get(&key(*k)), *exp) {
                (None, 255) => true,
                (Some((c, _)), e) if e != 255 => *c == val(e),
                _ => false,
            };
            if ok {
                m.insert(key(*k), (val(*v), Ttl::None));
            }
            ok
        }
    }
}

fn to_command(c: &Cmd) -> Command {
    match c {
        Cmd::Noop => Command::Noop,
        Cmd::Put { k, v } => Command::Insert { key: key(*k), value: val(*v), ttl_secs: None },
        Cmd::PutTtl { k, v, ttl_s } => Command::Insert { key: key(*k), value: val(*v), ttl_secs: Some(*ttl_s) },
        Cmd::Del { k } => Command::Delete { key: key(*k) },
        Cmd::Cas { k, exp, v } => Command::CompareAndSwap {
            key: key(*k),
            expected: if *exp == 255 { None } else { Some(val(*exp)) },
            value: val(*v),
        },
    }
}

// ───────────────────────── engine access ─────────────────────────

async fn open_sm(engine: &str, dir: &Path) -> Arc<dyn StateMachine> {
    let lease = Arc::new(TtlLease::new(d_engine_core::config::LeaseConfig::default()));
    match engine {
        "rocksdb" => {
            let mut sm = RocksDBStateMachine::new(dir.join("rocks-sm")).expect("open rocksdb sm");
            sm.set_lease(lease);
            let sm = Arc::new(sm);
            sm.start().await.expect("start");
            sm
        }
        _ => {
            let mut sm = FileStateMachine::new(dir.join("file-sm")).await.expect("open file sm");
            sm.set_lease(lease);
            let sm = Arc::new(sm);
            sm.start().await.expect("start");
            sm
        }
    }
}

fn dump(sm: &Arc<dyn StateMachine>) -> BTreeMap<Bytes, Bytes> {
    let mut out = BTreeMap::new();
    for k in 0..3u8 {
        if let Ok(Some(v)) = sm.get(&key(k)) {
            out.insert(key(k), v);
        }
    }
    out
}

#[derive(Serialize, Deserialize, Default, Clone, Debug)]
pub struct ChildReport {
    /// one record per executed op
    pub ops: Vec<Value>,
    pub completed: bool,
    /// what the freshly opened engine reported before the first op
    #[serde(default)]
    pub open: Value,
}

fn wall_ms() -> u64 {
    crate::sm::wall_ms()
}

thread_local! {
    /// crash points are not counted while the child builds the snapshot-producing "leader" instance
    static BUILDING_LEADER: std::cell::Cell<bool> = const { std::cell::Cell::new(false) };
}

/// Child: execute one segment against the directory; abort on Crash.
pub fn child_main(kv: &HashMap<String, String>) -> i32 {
    let kv = kv.clone();
    std::thread::Builder::new().stack_size(64 << 20).spawn(move || child_thread(&kv)).unwrap().join().map(|_| 0).unwrap_or(3)
}

fn child_thread(kv: &HashMap<String, String>) {
    let plan: SmPlan = serde_json::from_str(&std::fs::read_to_string(&kv["plan"]).unwrap()).unwrap();
    let seg: usize = kv["segment"].parse().unwrap();
    let first_index: u64 = kv["first-index"].parse().unwrap();
    let offset_ms: i64 = kv["wall-offset-ms"].parse().unwrap();
    let dir = PathBuf::from(&kv["dir"]);
    let report_path = PathBuf::from(&kv["report"]);
    // what the node has applied before this segment: (command, wall ms of its application)
    let history: Vec<(Cmd, u64)> = kv.get("history").and_then(|p| std::fs::read_to_string(p).ok()).and_then(|s| serde_json::from_str(&s).ok()).unwrap_or_default();
    crate::seams::enter_sim_thread(plan.seed ^ seg as u64);
    crate::seams::WALL_JUMP_NS.store(offset_ms * 1_000_000, std::sync::atomic::Ordering::SeqCst);
    let rt = tokio::runtime::Builder::new_current_thread().enable_time().start_paused(true).build().unwrap();
    let segment = plan.segments[seg].clone();
    let engine = plan.engine.clone();
    if let (End::Crash, Some(n)) = (&segment.end, segment.crash_point) {
        let seen = std::rc::Rc::new(std::cell::Cell::new(0u64));
        let crash_path = PathBuf::from(format!("{}.crash", kv["report"]));
        d_engine_core::verif::set_hook(std::rc::Rc::new(move |ev| {
            if let d_engine_core::verif::Event::Point { tag, .. } = ev {
                if (tag.starts_with("fsm_") || tag.starts_with("rsm_")) && !BUILDING_LEADER.with(|b| b.get()) {
                    seen.set(seen.get() + 1);
                    if seen.get() == n {
                        let _ = std::fs::write(&crash_path, tag);
                        std::process::abort();
                    }
                }
            }
        }));
    }
    rt.block_on(async move {
        let sm = open_sm(&engine, &dir).await;
        let mut rep = ChildReport::default();
        rep.open = json!({"last_applied": sm.last_applied().index, "wall_ms": wall_ms(),
            "state": dump(&sm).iter().map(|(k, v)| (String::from_utf8_lossy(k).to_string(), String::from_utf8_lossy(v).to_string())).collect::<BTreeMap<String, String>>()});
        let mut next = first_index;
        let mut applied_here: Vec<(Cmd, u64)> = Vec::new();
        let save = |rep: &ChildReport| std::fs::write(&report_path, serde_json::to_string(rep).unwrap()).unwrap();
        save(&rep);
        for op in segment.ops.iter() {
            match op {
                SOp::Chunk { cmds } => {
                    let entries: Vec<ApplyEntry> =
                        cmds.iter().enumerate().map(|(i, c)| ApplyEntry { index: next + i as u64, term: 1, command: to_command(c) }).collect();
                    let t = wall_ms();
                    let res = sm.apply_chunk(&entries).await;
                    next += cmds.len() as u64;
                    applied_here.extend(cmds.iter().map(|c| (c.clone(), t)));
                    let flags: Option<Vec<bool>> = res.as_ref().ok().map(|r| r.iter().map(|x| x.succeeded).collect());
                    let idxs: Option<Vec<u64>> = res.as_ref().ok().map(|r| r.iter().map(|x| x.index).collect());
                    let state: BTreeMap<String, String> =
                        dump(&sm).iter().map(|(k, v)| (String::from_utf8_lossy(k).to_string(), String::from_utf8_lossy(v).to_string())).collect();
                    let multi = sm.get_multi(&[key(0), key(1), key(2), key(0)]).ok().map(|v| {
                        v.iter().map(|x| x.as_ref().map(|b| String::from_utf8_lossy(b).to_string())).collect::<Vec<_>>()
                    });
                    let scan = sm.scan_prefix(b"k1/").ok().map(|s| {
                        let mut e: Vec<(String, String)> =
                            s.entries.iter().map(|(k, v)| (String::from_utf8_lossy(k).to_string(), String::from_utf8_lossy(v).to_string())).collect();
                        e.sort();
                        (e, s.revision)
                    });
                    rep.ops.push(json!({"op": "chunk", "wall_ms": t, "ok": res.is_ok(), "flags": flags, "idxs": idxs, "state": state,
                                        "multi": multi, "scan": scan, "last_applied": sm.last_applied().index}));
                }
                SOp::Advance { ms } => {
                    tokio::time::sleep(Duration::from_millis(*ms)).await;
                    rep.ops.push(json!({"op": "advance", "wall_ms": wall_ms()}));
                }
                SOp::Install { extra } => {
                    let t = wall_ms();
                    let opi = rep.ops.len();
                    let ldir = dir.join(format!("leader-{seg}-{opi}"));
                    let snapdir = dir.join(format!("snap-{seg}-{opi}"));
                    let _ = std::fs::remove_dir_all(&ldir);
                    let _ = std::fs::remove_dir_all(&snapdir);
                    std::fs::create_dir_all(&ldir).unwrap();
                    let all: Vec<(Cmd, u64)> = history.iter().cloned().chain(applied_here.iter().cloned()).chain(extra.iter().map(|c| (c.clone(), t))).collect();
                    let boundary = all.len() as u64;
                    // the leader applied every command at the wall time the node applied it (TTL deadlines are absolute)
                    BUILDING_LEADER.with(|b| b.set(true));
                    let saved_jump = crate::seams::WALL_JUMP_NS.load(std::sync::atomic::Ordering::SeqCst);
                    let leader = open_sm(&engine, &ldir).await;
                    let mut i = 0usize;
                    let mut lead_ok = true;
                    while i < all.len() {
                        let tt = all[i].1;
                        let mut j = i;
                        while j < all.len() && all[j].1 == tt && j - i < 6 {
                            j += 1;
                        }
                        let now = wall_ms();
                        let delta_ms = tt as i64 - now as i64;
                        crate::seams::WALL_JUMP_NS.fetch_add(delta_ms * 1_000_000, std::sync::atomic::Ordering::SeqCst);
                        let entries: Vec<ApplyEntry> =
                            (i..j).map(|x| ApplyEntry { index: x as u64 + 1, term: 1, command: to_command(&all[x].0) }).collect();
                        lead_ok &= leader.apply_chunk(&entries).await.is_ok();
                        i = j;
                    }
                    let now = wall_ms();
                    crate::seams::WALL_JUMP_NS.fetch_add((t as i64 - now as i64) * 1_000_000, std::sync::atomic::Ordering::SeqCst);
                    let _ = saved_jump;
                    let li = LogId { index: boundary, term: 1 };
                    let sum = leader.generate_snapshot_data(snapdir.clone(), li).await;
                    let _ = leader.stop();
                    drop(leader);
                    BUILDING_LEADER.with(|b| b.set(false));
                    let mut ok = false;
                    let mut err = String::new();
                    match sum {
                        Ok(checksum) if lead_ok => {
                            let meta = d_engine_proto::server::storage::SnapshotMetadata { last_included: Some(li), checksum };
                            match sm.apply_snapshot_from_file(&meta, snapdir.clone()).await {
                                Ok(()) => ok = true,
                                Err(e) => err = format!("install: {e:?}"),
                            }
                        }
                        Ok(_) => err = "leader apply failed".into(),
                        Err(e) => err = format!("generate: {e:?}"),
                    }
                    if ok {
                        next = boundary + 1;
                        applied_here.extend(extra.iter().map(|c| (c.clone(), t)));
                    }
                    let state: BTreeMap<String, String> =
                        dump(&sm).iter().map(|(k, v)| (String::from_utf8_lossy(k).to_string(), String::from_utf8_lossy(v).to_string())).collect();
                    rep.ops.push(json!({"op": "install", "wall_ms": t, "ok": ok, "error": err, "boundary": boundary, "state": state,
                                        "last_applied": sm.last_applied().index,
                                        "snapshot_meta_index": sm.snapshot_metadata().and_then(|m| m.last_included).map(|l| l.index)}));
                }
                SOp::Cleanup => {
                    let t = wall_ms();
                    let r = sm.lease_background_cleanup().await;
                    let state: BTreeMap<String, String> =
                        dump(&sm).iter().map(|(k, v)| (String::from_utf8_lossy(k).to_string(), String::from_utf8_lossy(v).to_string())).collect();
                    rep.ops.push(json!({"op": "cleanup", "wall_ms": t, "ok": r.is_ok(), "state": state}));
                }
            }
            save(&rep);
        }
        rep.completed = true;
        save(&rep);
        match segment.end {
            End::Crash => std::process::abort(),
            _ => {
                // graceful: what Node/EmbeddedEngine do on shutdown
                let _ = sm.stop();
                drop(sm);
            }
        }
    });
}

// ───────────────────────── parent ─────────────────────────

fn spawn_child(plan_path: &Path, seg: usize, first_index: u64, offset_ms: u64, dir: &Path, report: &Path, history: &Path) -> bool {
    let exe = std::env::current_exe().unwrap();
    let st = std::process::Command::new(exe)
        .args([
            "smsim-child",
            "--plan",
            plan_path.to_str().unwrap(),
            "--segment",
            &seg.to_string(),
            "--first-index",
            &first_index.to_string(),
            "--wall-offset-ms",
            &offset_ms.to_string(),
            "--dir",
            dir.to_str().unwrap(),
            "--report",
            report.to_str().unwrap(),
            "--history",
            history.to_str().unwrap(),
        ])
        .stdout(std::process::Stdio::null())
        .stderr(std::process::Stdio::null())
        .status();
    st.is_ok()
}

fn s2b(m: &BTreeMap<String, String>) -> BTreeMap<Bytes, Bytes> {
    m.iter().map(|(k, v)| (Bytes::from(k.clone()), Bytes::from(v.clone()))).collect()
}
fn b2s(m: &BTreeMap<Bytes, Bytes>) -> BTreeMap<String, String> {
    m.iter().map(|(k, v)| (String::from_utf8_lossy(k).to_string(), String::from_utf8_lossy(v).to_string())).collect()
}
fn hs(s: &str) -> u64 {
    s.bytes().fold(0xcbf2_9ce4_8422_2325u64, |h, b| (h ^ b as u64).wrapping_mul(0x100_0000_01b3))
}
fn ks(k: &Bytes) -> String {
    String::from_utf8_lossy(k).to_string()
}

pub fn run_cli(seed: u64, kv: &HashMap<String, String>) -> i32 {
    let mode = kv.get("mode").cloned().unwrap_or_else(|| "c22".into());
    let plan: SmPlan = match kv.get("plan") {
        Some(p) => {
            let v: Value = serde_json::from_str(&std::fs::read_to_string(p).expect("read plan")).expect("json");
            serde_json::from_value(v.get("plan").cloned().unwrap_or(v)).expect("plan schema")
        }
        None => gen_plan(seed, &mode),
    };
    if kv.contains_key("print-plan") {
        println!("{}", serde_json::to_string_pretty(&plan).unwrap());
        return 0;
    }
    let res = std::thread::Builder::new()
        .stack_size(64 << 20)
        .spawn(move || run_parent(plan))
        .unwrap()
        .join()
        .unwrap_or_else(|_| json!({"harness_error": "smsim thread panicked"}));
    let out = serde_json::to_string(&res).unwrap();
    if let Some(p) = kv.get("out") {
        std::fs::write(p, &out).unwrap();
    } else {
        eprintln!("RESULT {out}");
    }
    0
}

/// TTL deadlines within this distance of an observation are not judged (the File WAL keeps
/// deadlines in whole seconds).
const TTL_SLACK_MS: u64 = 1000;

struct Tracker {
    engine: String,
    o: OracleRef,
    model: Model,
    /// every command handed to apply_chunk so far, with the wall time of its application
    history: Vec<(Cmd, u64)>,
    ever_ttl: std::collections::BTreeSet<Bytes>,
    /// the model was re-synchronised to the engine after a reported difference
    resynced: bool,
    ttl_expiry_checks: u64,
    ttl_survival_checks: u64,
    cas_in_batch_after_write: u64,
    replays: u64,
    restart_marks: Vec<(usize, String)>,
    /// a snapshot was installed earlier in this plan (C16 attribution of later differences)
    installed: bool,
    /// what was running when the latest incarnation was killed: ("install" | "chunk" | "none", crash point tag)
    last_crash: (String, String),
}

impl Tracker {
    /// C16: after installing the leader's snapshot the node holds exactly the state of a node that applied the
    /// whole log up to the boundary, and reports the boundary as its applied index.
    fn observe_install(&mut self, extra: &[Cmd], rec: &Value) {
        let t = rec["wall_ms"].as_u64().unwrap_or(0);
        self.o.lock().unwrap().trace("install", hs(&rec.to_string()), rec["last_applied"].as_u64().unwrap_or(0), t);
        if !rec["ok"].as_bool().unwrap_or(false) {
            self.violate("C16", "snapshot_install_failed", json!({"error": rec["error"]}));
            return;
        }
        self.installed = true;
        for c in extra {
            if let Cmd::PutTtl { k, .. } = c {
                self.ever_ttl.insert(key(*k));
            }
            model_apply(&mut self.model, c, t);
            self.history.push((c.clone(), t));
        }
        let n = self.history.len() as u64;
        if rec["boundary"].as_u64() != Some(n) {
            self.violate("C16", "harness_boundary_mismatch", json!({"boundary": rec["boundary"], "history": n}));
        }
        if rec["last_applied"].as_u64() != Some(n) {
            self.violate("C16", "applied_index_differs_from_snapshot_boundary", json!({"reported": rec["last_applied"], "boundary": n}));
        }
        if rec["snapshot_meta_index"].as_u64() != Some(n) {
            self.violate("C16", "snapshot_metadata_differs_from_boundary", json!({"reported": rec["snapshot_meta_index"], "boundary": n}));
        }
        let state: BTreeMap<String, String> = serde_json::from_value(rec["state"].clone()).unwrap_or_default();
        let st = s2b(&state);
        let mut bad = Self::diff(&self.model, &st, t);
        // a key whose TTL had expired and that the model dropped after a cleanup (or any observed absence) is back,
        // still expired, in the leader's snapshot until the next cleanup there: not judged
        bad.retain(|k| !(self.ever_ttl.contains(k) && !self.model.contains_key(k)));
        if !bad.is_empty() {
            self.violate(
                "C16",
                "installed_state_differs_from_full_apply",
                json!({"keys": bad.iter().map(ks).collect::<Vec<_>>(), "boundary": n, "got": state, "ttl_key": bad.iter().any(|k| self.ever_ttl.contains(k)),
                       "want": self.model.iter().map(|(k, v)| (ks(k), ks(&v.0))).collect::<BTreeMap<_, _>>(), "model_resynced_earlier": self.resynced}),
            );
        }
        for k in [key(0), key(1), key(2)] {
            if st.get(&k) != self.model.get(&k).map(|x| &x.0) {
                self.adopt(&k, st.get(&k));
            }
        }
    }

    fn violate(&self, p: &str, kind: &str, mut w: Value) {
        w["engine"] = json!(self.engine);
        self.o.lock().unwrap().violate(p, kind, w);
    }

    fn adopt(&mut self, k: &Bytes, got: Option<&Bytes>) {
        self.resynced = true;
        match got {
            Some(v) => {
                let ttl = if self.ever_ttl.contains(k) { Ttl::Unknown } else { Ttl::None };
                self.model.insert(k.clone(), (v.clone(), ttl));
            }
            None => {
                self.model.remove(k);
            }
        }
    }

    /// Compare an observed key-value image with the model; TTL keys that are (nearly) due or
    /// of unknown deadline may be absent. Returns the keys that differ.
    fn diff(model: &Model, got: &BTreeMap<Bytes, Bytes>, now: u64) -> Vec<Bytes> {
        let mut bad = Vec::new();
        for (k, (v, ttl)) in model.iter() {
            match got.get(k) {
                Some(g) if g == v => {}
                None if matches!(ttl, Ttl::Unknown) || matches!(ttl, Ttl::Due(d) if *d <= now + TTL_SLACK_MS) => {}
                _ => bad.push(k.clone()),
            }
        }
        for k in got.keys() {
            if !model.contains_key(k) {
                bad.push(k.clone());
            }
        }
        bad
    }

    fn observe_chunk(&mut self, cmds: &[Cmd], rec: &Value) {
        let t = rec["wall_ms"].as_u64().unwrap_or(0);
        self.o.lock().unwrap().trace("chunk", hs(&rec.to_string()), rec["last_applied"].as_u64().unwrap_or(0), t);
        let first_index = self.history.len() as u64 + 1;
        let mut want = Vec::new();
        let mut written: std::collections::BTreeSet<Bytes> = Default::default();
        let mut ttl_key_in_cas = false;
        for c in cmds {
            match c {
                Cmd::Cas { k, .. } => {
                    if written.contains(&key(*k)) {
                        self.cas_in_batch_after_write += 1;
                    }
                    ttl_key_in_cas |= self.ever_ttl.contains(&key(*k));
                    written.insert(key(*k));
                }
                Cmd::Put { k, .. } | Cmd::Del { k } => {
                    written.insert(key(*k));
                }
                Cmd::PutTtl { k, .. } => {
                    written.insert(key(*k));
                    self.ever_ttl.insert(key(*k));
                }
                Cmd::Noop => {}
            }
            want.push(model_apply(&mut self.model, c, t));
            self.history.push((c.clone(), t));
        }
        if !rec["ok"].as_bool().unwrap_or(false) {
            self.violate("C22", "apply_failed", json!({"first_index": first_index}));
        } else {
            let flags: Vec<bool> = rec["flags"].as_array().map(|a| a.iter().map(|x| x.as_bool().unwrap_or(false)).collect()).unwrap_or_default();
            if flags != want {
                self.violate(
                    "C22",
                    "result_flag_differs",
                    json!({"chunk": cmds, "first_index": first_index, "want": want, "got": flags, "model_resynced_earlier": self.resynced, "cas_on_ttl_key": ttl_key_in_cas}),
                );
            }
            let idxs: Vec<u64> = rec["idxs"].as_array().map(|a| a.iter().map(|x| x.as_u64().unwrap_or(0)).collect()).unwrap_or_default();
            let want_idx: Vec<u64> = (first_index..first_index + cmds.len() as u64).collect();
            if idxs != want_idx {
                self.violate("C22", "result_index_differs", json!({"want": want_idx, "got": idxs}));
            }
            if rec["last_applied"].as_u64() != Some(self.history.len() as u64) {
                self.violate("C15", "live_applied_index_wrong", json!({"reported": rec["last_applied"], "applied": self.history.len()}));
            }
        }
        let state: BTreeMap<String, String> = serde_json::from_value(rec["state"].clone()).unwrap_or_default();
        let st = s2b(&state);
        let bad = Self::diff(&self.model, &st, t);
        if !bad.is_empty() {
            let ttl_key = bad.iter().any(|k| self.ever_ttl.contains(k));
            self.violate(
                "C22",
                "content_differs",
                json!({"keys": bad.iter().map(ks).collect::<Vec<_>>(), "after_index": self.history.len(), "chunk": cmds, "ttl_key": ttl_key,
                       "want": self.model.iter().map(|(k, v)| (ks(k), ks(&v.0))).collect::<BTreeMap<_, _>>(), "got": state, "model_resynced_earlier": self.resynced}),
            );
        }
        // follow the engine for TTL keys that are gone and for reported differences
        for k in [key(0), key(1), key(2)] {
            if st.get(&k) != self.model.get(&k).map(|x| &x.0) {
                self.adopt(&k, st.get(&k));
            }
        }
        // the three read APIs must agree with each other on the same quiescent state
        if let Some(multi) = rec["multi"].as_array() {
            let g: Vec<Option<String>> = multi.iter().map(|x| x.as_str().map(|s| s.to_string())).collect();
            let w: Vec<Option<String>> = [0u8, 1, 2, 0].iter().map(|k| state.get(KEYS[*k as usize]).cloned()).collect();
            if g != w {
                self.violate("C22", "read_api_differs", json!({"api": "get_multi", "want": w, "got": g}));
            }
        }
        if let Some(scan) = rec["scan"].as_array() {
            let mut w: Vec<(String, String)> = state.iter().filter(|(k, _)| k.starts_with("k1/")).map(|(k, v)| (k.clone(), v.clone())).collect();
            w.sort();
            let g: Vec<(String, String)> = serde_json::from_value(scan[0].clone()).unwrap_or_default();
            if g != w {
                self.violate("C22", "read_api_differs", json!({"api": "scan_prefix", "want": w, "got": g}));
            }
        }
    }

    fn observe_cleanup(&mut self, rec: &Value) {
        let t = rec["wall_ms"].as_u64().unwrap_or(0);
        self.o.lock().unwrap().trace("cleanup", hs(&rec.to_string()), 0, t);
        let state: BTreeMap<String, String> = serde_json::from_value(rec["state"].clone()).unwrap_or_default();
        let st = s2b(&state);
        if !rec["ok"].as_bool().unwrap_or(false) {
            self.violate("C23", "cleanup_failed", json!({}));
        }
        for (k, (v, ttl)) in self.model.clone().iter() {
            let got = st.get(k);
            match ttl {
                Ttl::Unknown => {}
                Ttl::Due(d) if *d + TTL_SLACK_MS <= t => {
                    self.ttl_expiry_checks += 1;
                    if got.is_some() {
                        self.violate("C23", "not_expired", json!({"key": ks(k), "due_ms": d, "cleanup_at_ms": t, "restarts_since_put": self.restarts_since_put(k)}));
                    }
                }
                Ttl::Due(d) if *d >= t + TTL_SLACK_MS => {
                    self.ttl_survival_checks += 1;
                    if got != Some(v) {
                        self.violate("C23", "expired_early", json!({"key": ks(k), "due_ms": d, "cleanup_at_ms": t}));
                    }
                }
                Ttl::Due(_) => {}
                Ttl::None => {
                    if got != Some(v) {
                        if self.ever_ttl.contains(k) {
                            self.violate("C23", "stale_ttl_deleted_new_value", json!({"key": ks(k), "cleanup_at_ms": t, "last_write": self.last_write(k)}));
                        } else {
                            self.violate("C22", "content_differs", json!({"keys": [ks(k)], "by": "cleanup", "ttl_key": false}));
                        }
                    }
                }
            }
        }
        for k in st.keys() {
            if !self.model.contains_key(k) {
                self.violate("C22", "content_differs", json!({"keys": [ks(k)], "by": "cleanup_resurrected", "ttl_key": self.ever_ttl.contains(k)}));
            }
        }
        for k in [key(0), key(1), key(2)] {
            if st.get(&k) != self.model.get(&k).map(|x| &x.0) {
                self.adopt(&k, st.get(&k));
            }
        }
    }

    fn last_write(&self, k: &Bytes) -> String {
        for (c, _) in self.history.iter().rev() {
            match c {
                Cmd::Put { k: kk, .. } if key(*kk) == *k => return "put".into(),
                Cmd::Cas { k: kk, .. } if key(*kk) == *k => return "cas".into(),
                Cmd::PutTtl { k: kk, .. } if key(*kk) == *k => return "put_ttl".into(),
                _ => {}
            }
        }
        "none".into()
    }

    /// kind of the last restart that happened after the key's last TTL put ("none" if none)
    fn restarts_since_put(&self, k: &Bytes) -> Value {
        let pos = self.history.iter().rposition(|(c, _)| matches!(c, Cmd::PutTtl { k: kk, .. } if key(*kk) == *k)).unwrap_or(0);
        let kinds: std::collections::BTreeSet<String> = self.restart_marks.iter().filter(|(at, _)| *at > pos).map(|(_, k)| k.clone()).collect();
        json!(if kinds.is_empty() { "none".to_string() } else { kinds.into_iter().collect::<Vec<_>>().join("+") })
    }

    /// After a restart: `a` = applied index reported by the reopened engine, `got` its contents.
    /// Returns the prefix model for `a` when it can be computed.
    fn observe_restart(&mut self, kind: &str, a: u64, got: &BTreeMap<Bytes, Bytes>, now: u64) {
        let n = self.history.len() as u64;
        self.o.lock().unwrap().trace(if kind == "crash" { "restart_crash" } else { "restart_graceful" }, a, hs(&format!("{:?}", got)), now);
        self.restart_marks.push((n as usize, kind.to_string()));
        if a > n {
            self.violate("C15", "applied_index_beyond_log", json!({"reported": a, "applied_before": n, "restart": kind}));
            return;
        }
        if kind == "graceful" && a != n {
            self.violate("C15", "graceful_restart_lost_applied_index", json!({"reported": a, "applied_before": n}));
        }
        let prefix: Option<Model> = if a == n {
            Some(self.model.clone())
        } else if !self.resynced {
            let mut m = Model::new();
            for (c, t) in self.history.iter().take(a as usize) {
                model_apply(&mut m, c, *t);
            }
            Some(m)
        } else {
            None
        };
        if let Some(m) = prefix {
            let bad = Self::diff(&m, got, now);
            if !bad.is_empty() {
                let full_bad = Self::diff(&self.model, got, now);
                if self.installed {
                    self.violate(
                        "C16",
                        "state_after_snapshot_install_and_restart_differs",
                        json!({"restart": kind, "reported": a, "applied_before": n, "keys": bad.iter().map(ks).collect::<Vec<_>>(),
                               "ttl_key": bad.iter().any(|k| self.ever_ttl.contains(k)), "got": b2s(got),
                               "killed_during": self.last_crash.0, "crash_point": self.last_crash.1,
                               "matches_full_state": Self::diff(&self.model, got, now).is_empty(),
                               "want_for_reported": m.iter().map(|(k, v)| (ks(k), ks(&v.0))).collect::<BTreeMap<_, _>>()}),
                    );
                }
                self.violate(
                    "C15",
                    "state_not_matching_applied_index",
                    json!({"restart": kind, "reported": a, "applied_before": n, "matches_full_state": full_bad.is_empty(), "keys": bad.iter().map(ks).collect::<Vec<_>>(),
                           "ttl_key": bad.iter().any(|k| self.ever_ttl.contains(k)),
                           "empty_value_key": bad.iter().any(|k| m.get(k).is_some_and(|v| v.0.is_empty())),
                           "got": b2s(got), "want_for_reported": m.iter().map(|(k, v)| (ks(k), ks(&v.0))).collect::<BTreeMap<_, _>>()}),
                );
            }
        }
    }

    /// After the node re-applied a+1..=n from its log.
    fn observe_replay(&mut self, kind: &str, a: u64, ok: bool, got: &BTreeMap<Bytes, Bytes>, now: u64) {
        let n = self.history.len() as u64;
        self.o.lock().unwrap().trace("replay", a, hs(&format!("{:?}", got)), now);
        self.replays += 1;
        // deadlines of TTL puts in the replayed suffix were re-armed
        let suffix: Vec<Cmd> = self.history.iter().skip(a as usize).map(|x| x.0.clone()).collect();
        for c in suffix.iter() {
            if let Cmd::PutTtl { k, .. } = c {
                if let Some(e) = self.model.get_mut(&key(*k)) {
                    if matches!(e.1, Ttl::Due(_)) {
                        e.1 = Ttl::Unknown;
                    }
                }
            }
        }
        let bad = Self::diff(&self.model, got, now);
        if (!ok || !bad.is_empty()) && self.installed {
            self.violate(
                "C16",
                "install_plus_replay_differs_from_full_apply",
                json!({"restart": kind, "reported": a, "applied_before": n, "reapplied_ok": ok, "keys": bad.iter().map(ks).collect::<Vec<_>>(),
                       "ttl_key": bad.iter().any(|k| self.ever_ttl.contains(k)), "got": b2s(got),
                       "killed_during": self.last_crash.0, "crash_point": self.last_crash.1,
                       "want": self.model.iter().map(|(k, v)| (ks(k), ks(&v.0))).collect::<BTreeMap<_, _>>()}),
            );
        }
        if !ok || !bad.is_empty() {
            self.violate(
                "C15",
                "replay_changed_state",
                json!({"restart": kind, "reported": a, "applied_before": n, "reapplied_ok": ok, "keys": bad.iter().map(ks).collect::<Vec<_>>(),
                       "suffix": suffix, "got": b2s(got), "want": self.model.iter().map(|(k, v)| (ks(k), ks(&v.0))).collect::<BTreeMap<_, _>>()}),
            );
        }
    }

    /// A chunk that was being applied when the process died: the commands are committed log
    /// entries (the node re-applies whatever the engine does not report as applied).
    fn inflight(&mut self, cmds: &[Cmd], t: u64) {
        for c in cmds {
            if let Cmd::PutTtl { k, .. } = c {
                self.ever_ttl.insert(key(*k));
            }
            model_apply(&mut self.model, c, t);
            self.history.push((c.clone(), t));
        }
    }

    fn resync(&mut self, got: &BTreeMap<Bytes, Bytes>) {
        for k in [key(0), key(1), key(2)] {
            if got.get(&k) != self.model.get(&k).map(|x| &x.0) {
                self.adopt(&k, got.get(&k));
            }
        }
    }
}

fn run_parent(plan: SmPlan) -> Value {
    crate::seams::enter_sim_thread(plan.seed);
    crate::seams::reset_time();
    crate::oracle::reset_event_seq();
    let root = crate::cluster::tmp_root();
    let _ = std::fs::remove_dir_all(&root);
    std::fs::create_dir_all(&root).unwrap();
    let plan_path = root.join("plan.json");
    std::fs::write(&plan_path, serde_json::to_string(&plan).unwrap()).unwrap();
    let dir = root.join("data");
    std::fs::create_dir_all(&dir).unwrap();
    let o: OracleRef = Oracle::new(false);
    let mut tr = Tracker {
        engine: plan.engine.clone(),
        o: o.clone(),
        model: Model::new(),
        history: Vec::new(),
        ever_ttl: Default::default(),
        resynced: false,
        ttl_expiry_checks: 0,
        ttl_survival_checks: 0,
        cas_in_batch_after_write: 0,
        replays: 0,
        restart_marks: Vec::new(),
        installed: false,
        last_crash: ("none".into(), "".into()),
    };
    let mut offset_ms: u64 = 0;
    let (mut crashes, mut gracefuls, mut chunks, mut cleanups) = (0u64, 0u64, 0u64, 0u64);
    let mut installs = 0u64;
    let mut crash_points: BTreeMap<String, u64> = BTreeMap::new();
    let mut harness_error: Option<String> = None;
    let base_ms = (crate::seams::WALL_BASE_NS / 1_000_000) as u64;
    let rt = tokio::runtime::Builder::new_current_thread().enable_time().start_paused(true).build().unwrap();
    for (si, seg) in plan.segments.iter().enumerate() {
        let report = root.join(format!("report-{si}.json"));
        let first_index = tr.history.len() as u64 + 1;
        let hist_path = root.join(format!("history-{si}.json"));
        std::fs::write(&hist_path, serde_json::to_string(&tr.history).unwrap()).unwrap();
        if !spawn_child(&plan_path, si, first_index, offset_ms, &dir, &report, &hist_path) {
            harness_error = Some("child spawn failed".into());
            break;
        }
        let crash_file = PathBuf::from(format!("{}.crash", report.to_str().unwrap()));
        let crashed_at: Option<String> = std::fs::read_to_string(&crash_file).ok();
        let _ = std::fs::remove_file(&crash_file);
        let rep: ChildReport = match std::fs::read_to_string(&report).ok().and_then(|s| serde_json::from_str(&s).ok()) {
            Some(r) => r,
            None if crashed_at.is_some() => ChildReport::default(), // died while opening
            None => {
                harness_error = Some(format!("no child report for segment {si}"));
                break;
            }
        };
        if !rep.completed && crashed_at.is_none() {
            harness_error = Some(format!("child did not complete segment {si} ({} of {} ops)", rep.ops.len(), seg.ops.len()));
            break;
        }
        if let Some(tag) = &crashed_at {
            o.lock().unwrap().trace("crash_point", hs(tag), rep.ops.len() as u64, 0);
            *crash_points.entry(tag.clone()).or_insert(0) += 1;
        }
        if si > 0 && !rep.open.is_null() {
            // the previous incarnation (this process) was closed gracefully
            let st: BTreeMap<String, String> = serde_json::from_value(rep.open["state"].clone()).unwrap_or_default();
            tr.observe_restart("graceful", rep.open["last_applied"].as_u64().unwrap_or(0), &s2b(&st), rep.open["wall_ms"].as_u64().unwrap_or(0));
            tr.resync(&s2b(&st));
        }
        for (op, rec) in seg.ops.iter().zip(rep.ops.iter()) {
            o.lock().unwrap().trace("smop", si as u64, tr.history.len() as u64, 0);
            match op {
                SOp::Chunk { cmds } => {
                    chunks += 1;
                    tr.observe_chunk(cmds, rec);
                }
                SOp::Advance { .. } => {}
                SOp::Cleanup => {
                    cleanups += 1;
                    tr.observe_cleanup(rec);
                }
                SOp::Install { extra } => {
                    installs += 1;
                    tr.observe_install(extra, rec);
                }
            }
            if let Some(t) = rec["wall_ms"].as_u64() {
                offset_ms = offset_ms.max(t.saturating_sub(base_ms));
            }
        }
        if crashed_at.is_some() && rep.ops.len() < seg.ops.len() && !rep.open.is_null() {
            // the op that was running when the process died: its entries are in the node's log
            tr.last_crash = (
                match &seg.ops[rep.ops.len()] {
                    SOp::Chunk { .. } => "chunk".to_string(),
                    SOp::Install { .. } => "install".to_string(),
                    _ => "other".to_string(),
                },
                crashed_at.clone().unwrap_or_default(),
            );
            match &seg.ops[rep.ops.len()] {
                SOp::Chunk { cmds } => tr.inflight(cmds, base_ms + offset_ms),
                // the leader's extra entries are committed entries: the node gets them from the snapshot or the log
                SOp::Install { extra } => {
                    tr.installed = true;
                    tr.inflight(extra, base_ms + offset_ms)
                }
                _ => {}
            }
        }
        if !(crashed_at.is_some() && rep.ops.len() < seg.ops.len() && !rep.open.is_null()) {
            tr.last_crash = ("none".into(), crashed_at.clone().unwrap_or_default());
        }
        if seg.end == End::Last {
            break;
        }
        let kind = if seg.end == End::Crash { "crash" } else { "graceful" };
        if seg.end == End::Crash {
            crashes += 1;
        } else {
            gracefuls += 1;
        }
        offset_ms += seg.down_ms;
        // ── reopen in this process: what a restarting node sees ──
        crate::seams::WALL_JUMP_NS.store(offset_ms as i64 * 1_000_000, std::sync::atomic::Ordering::SeqCst);
        let engine = plan.engine.clone();
        let dir2 = dir.clone();
        let hist: Vec<Cmd> = tr.history.iter().map(|x| x.0.clone()).collect();
        let (a, got, replayed) = rt.block_on(async move {
            let sm = open_sm(&engine, &dir2).await;
            let a = sm.last_applied().index;
            let got = dump(&sm);
            let n = hist.len() as u64;
            // the node re-applies a+1..=n from its log (its commit index restarts at the applied index)
            let replayed = if a < n {
                let entries: Vec<ApplyEntry> =
                    hist.iter().enumerate().skip(a as usize).map(|(i, c)| ApplyEntry { index: i as u64 + 1, term: 1, command: to_command(c) }).collect();
                let res = sm.apply_chunk(&entries).await;
                Some((res.is_ok(), dump(&sm)))
            } else {
                None
            };
            let _ = sm.stop();
            drop(sm);
            (a, got, replayed)
        });
        let now = base_ms + offset_ms;
        tr.observe_restart(kind, a, &got, now);
        let mut last = got;
        if let Some((ok, got2)) = replayed {
            tr.observe_replay(kind, a, ok, &got2, now);
            last = got2;
        }
        tr.resync(&last);
    }
    drop(rt);
    let _ = std::fs::remove_dir_all(&root);
    let og = o.lock().unwrap();
    let mut res = json!({
        "seed": plan.seed, "scenario": plan.mode, "vtime_ms": offset_ms, "oracle": og.summary(),
        "nontrivial": chunks > 0 && (plan.mode == "c22" || crashes + gracefuls > 0) && (plan.mode != "c16" || installs > 0),
        "event_seq": og.trace_len,
        "stats": {"crashes": crashes, "graceful_restarts": gracefuls, "chunks": chunks, "cleanups": cleanups, "commands": tr.history.len(),
                  "ttl_expiry_checks": tr.ttl_expiry_checks, "ttl_survival_checks": tr.ttl_survival_checks,
                  "cas_after_write_in_same_batch": tr.cas_in_batch_after_write, "replays_after_restart": tr.replays, "snapshot_installs": installs},
        "crash_points_hit": crash_points,
        "faults_fired": {"child_abort_crash": crashes, "child_abort_inside_engine_write": crash_points.values().sum::<u64>(), "graceful_restart": gracefuls, "snapshot_install": installs, "wall_clock_advance_while_down": plan.segments.iter().filter(|s| s.down_ms > 0 && s.end != End::Last).count()},
        "plan_summary": {"engine": plan.engine, "segments": plan.segments.len()},
        "sample": plan.segments.iter().take(2).map(|s| format!("{:?}", s)).collect::<Vec<_>>(),
    });
    if let Some(e) = harness_error {
        res["harness_error"] = json!(e);
    }
    if !og.violations.is_empty() {
        res["plan"] = serde_json::to_value(&plan).unwrap();
    }
    res
}

//! `SimNode`: the harness's replica of `NodeBuilder::build()` + `Node::run()` over the
//! simulated transport/storage (DESIGN.md §3.9), and crash/restart (§3.8).

use std::fmt::Debug;
use std::marker::PhantomData;
use std::sync::atomic::{AtomicBool, Ordering};
use std::sync::{Arc, Mutex};
use std::time::Duration;

use async_trait::async_trait;
use d_engine_core::follower_state::FollowerState;
use d_engine_core::learner_state::LearnerState;
use d_engine_core::watch::{WatchDispatcher, WatchRegistry};
use d_engine_core::{
    BufferedRaftLog, ClientCmd, CommitHandler, CommitHandlerDependencies, DefaultCommitHandler, DefaultPurgeExecutor,
    DefaultStateMachineHandler, ElectionHandler, InboundEvent, InternalEvent, LogSizePolicy, NewCommitData, Raft,
    RaftCoreHandlers, RaftLog, RaftNodeConfig, RaftRole, RaftStorageHandles, ReadLease, ReplicationHandler, SignalParams,
    StateMachine, StateMachineWorker, StorageEngine, TypeConfig,
};
use d_engine_proto::server::cluster::cluster_management_service_server::ClusterManagementService;
use d_engine_proto::server::cluster::{
    ClusterConfChangeRequest, ClusterConfUpdateResponse, JoinRequest, JoinResponse, LeaderDiscoveryRequest,
    LeaderDiscoveryResponse,
};
use d_engine_proto::server::election::raft_election_service_server::RaftElectionService;
use d_engine_proto::server::election::{VoteRequest, VoteResponse};
use d_engine_server::Node;
use d_engine_server::verif as hv;
use tokio::sync::{mpsc, watch};
use tonic::Status;

use crate::net::{Endpoint, Net, SimTransport};
use crate::oracle::OracleRef;
use crate::sm::{MemSm, ObservedSm, SmImage, SmImageRef, SmObsRef, SmObserver};
use crate::store::{DiskRef, SimDisk, SimStorageEngine};

#[derive(Debug)]
pub struct SimTypeConfig<SE, SM>(PhantomData<(SE, SM)>);

impl<SE, SM> TypeConfig for SimTypeConfig<SE, SM>
where
    SE: StorageEngine + Debug,
    SM: StateMachine + Debug,
{
    type SE = SE;
    type SM = SM;
    type R = BufferedRaftLog<Self>;
    type TR = SimTransport<Self>;
    type M = hv::Membership<Self>;
    type REP = ReplicationHandler<Self>;
    type E = ElectionHandler<Self>;
    type C = DefaultCommitHandler<Self>;
    type SMH = DefaultStateMachineHandler<Self>;
    type SNP = LogSizePolicy;
    type PE = DefaultPurgeExecutor<Self>;
}

pub type MemT = SimTypeConfig<SimStorageEngine, ObservedSm<MemSm>>;

/// Adapter: real `Node<T>` as a network endpoint.
pub struct NodeEndpoint<T: TypeConfig> {
    pub node: Arc<Node<T>>,
    pub ready: Arc<AtomicBool>,
    pub event_tx: mpsc::Sender<InboundEvent>,
    pub cfg: Arc<RaftNodeConfig>,
    pub shutdown_rx: watch::Receiver<()>,
    pub group: u64,
}

#[async_trait]
impl<T: TypeConfig> Endpoint for NodeEndpoint<T> {
    fn is_rpc_ready(&self) -> bool {
        self.ready.load(Ordering::SeqCst)
    }
    fn event_tx(&self) -> mpsc::Sender<InboundEvent> {
        self.event_tx.clone()
    }
    fn node_config(&self) -> Arc<RaftNodeConfig> {
        self.cfg.clone()
    }
    fn shutdown_rx(&self) -> watch::Receiver<()> {
        self.shutdown_rx.clone()
    }
    fn group(&self) -> u64 {
        self.group
    }
    async fn request_vote(&self, req: VoteRequest) -> Result<VoteResponse, Status> {
        RaftElectionService::request_vote(&*self.node, tonic::Request::new(req)).await.map(|r| r.into_inner())
    }
    async fn join_cluster(&self, req: JoinRequest) -> Result<JoinResponse, Status> {
        ClusterManagementService::join_cluster(&*self.node, tonic::Request::new(req)).await.map(|r| r.into_inner())
    }
    async fn discover_leader(&self, req: LeaderDiscoveryRequest) -> Result<LeaderDiscoveryResponse, Status> {
        ClusterManagementService::discover_leader(&*self.node, tonic::Request::new(req)).await.map(|r| r.into_inner())
    }
    async fn update_cluster_conf(&self, req: ClusterConfChangeRequest) -> Result<ClusterConfUpdateResponse, Status> {
        ClusterManagementService::update_cluster_conf(&*self.node, tonic::Request::new(req)).await.map(|r| r.into_inner())
    }
}

/// Live handles of one incarnation.
pub struct Incarnation {
    pub inc: u64,
    pub group: u64,
    pub node: Arc<Node<MemT>>,
    pub raft_log: Arc<BufferedRaftLog<MemT>>,
    pub membership: Arc<hv::Membership<MemT>>,
    pub sm: Arc<ObservedSm<MemSm>>,
    /// same state machine, reads recorded as served through the embedded client's handle
    pub sm_embedded: Arc<ObservedSm<MemSm>>,
    pub smh: Arc<DefaultStateMachineHandler<MemT>>,
    pub lease: Arc<ReadLease>,
    pub cmd_tx: mpsc::Sender<ClientCmd>,
    pub event_tx: mpsc::Sender<InboundEvent>,
    pub shutdown_tx: watch::Sender<()>,
    pub cfg: Arc<RaftNodeConfig>,
    pub main: Option<tokio::task::JoinHandle<()>>,
    pub io: Option<tokio::task::JoinHandle<()>>,
    pub watch_registry: Arc<WatchRegistry>,
    pub ready: Arc<AtomicBool>,
    pub started_at_ms: u64,
    pub is_learner_cfg: bool,
    /// set once `Raft::run` has been entered (a learner first has to join)
    pub running: Arc<AtomicBool>,
}

pub struct SimNode {
    pub id: u32,
    pub disk: DiskRef,
    pub sm_img: SmImageRef,
    pub sm_obs: SmObsRef,
    pub cur: Option<Incarnation>,
    pub inc_counter: u64,
    pub base_cfg: RaftNodeConfig,
    pub net: Net,
    pub oracle: OracleRef,
    pub last_down_kind: String,
    pub first_state_seen: Arc<AtomicBool>,
}

static GROUP_COUNTER: std::sync::atomic::AtomicU64 = std::sync::atomic::AtomicU64::new(1);

impl SimNode {
    pub fn new(id: u32, seed: u64, base_cfg: RaftNodeConfig, net: Net, oracle: OracleRef) -> SimNode {
        let sm_obs = Arc::new(Mutex::new(SmObserver { seed, oracle: Some(oracle.clone()), ..Default::default() }));
        let disk = SimDisk::new(id, seed);
        let sm_img: SmImageRef = Arc::new(Mutex::new(SmImage::default()));
        {
            let mut d = disk.lock().unwrap();
            d.oracle = Some(oracle.clone());
            d.sm_img = Some(sm_img.clone());
            d.snap_dir = Some(base_cfg.raft.snapshot.snapshots_dir.clone());
        }
        SimNode {
            id,
            disk,
            sm_img,
            sm_obs,
            cur: None,
            inc_counter: 0,
            base_cfg,
            net,
            oracle,
            last_down_kind: "initial".into(),
            first_state_seen: Arc::new(AtomicBool::new(false)),
        }
    }

    pub fn is_up(&self) -> bool {
        self.cur.is_some()
    }

    /// Cold start / restart from the surviving images.
    pub async fn start(&mut self) {
        assert!(self.cur.is_none());
        self.inc_counter += 1;
        let inc = self.inc_counter;
        let group = GROUP_COUNTER.fetch_add(1, Ordering::SeqCst);
        {
            self.disk.lock().unwrap().live_incarnation = inc;
            self.sm_obs.lock().unwrap().live_incarnation = inc;
        }
        self.oracle.lock().unwrap().on_node_start(self.id, inc);
        self.first_state_seen.store(false, Ordering::SeqCst);
        let id = self.id;
        let cfg = self.base_cfg.clone();
        let disk = self.disk.clone();
        let img = self.sm_img.clone();
        let obs = self.sm_obs.clone();
        let net = self.net.clone();
        let h = tokio::verif::with_group(group, || tokio::spawn(build(id, inc, group, cfg, disk, img, obs, net)));
        let mut incarnation = h.await.expect("node build task");
        // run
        let node = incarnation.node.clone();
        let ready = incarnation.ready.clone();
        let is_learner = incarnation.is_learner_cfg;
        let running = incarnation.running.clone();
        let main = tokio::verif::with_group(group, || {
            tokio::spawn(async move {
                node_main(node, ready, is_learner, running).await;
            })
        });
        incarnation.main = Some(main);
        self.cur = Some(incarnation);
    }

    /// Non-graceful stop. `power_loss`: only synced data survives.
    pub fn crash(&mut self, power_loss: bool, choice: u64) {
        let Some(cur) = self.cur.take() else { return };
        self.last_down_kind = if power_loss { "power_loss".into() } else { "process_crash".into() };
        self.oracle.lock().unwrap().on_node_down(self.id, &self.last_down_kind);
        self.net.unregister(self.id);
        {
            let mut d = self.disk.lock().unwrap();
            if power_loss {
                d.power_loss(choice);
            } else {
                d.process_crash();
            }
        }
        self.sm_obs.lock().unwrap().live_incarnation = u64::MAX; // fence until restart
        tokio::verif::kill_group(cur.group);
        drop(cur);
    }

    /// Graceful stop: shutdown signal, wait for the Raft loop to return, then drop normally.
    pub async fn stop_gracefully(&mut self) {
        let Some(mut cur) = self.cur.take() else { return };
        self.last_down_kind = "graceful".into();
        self.oracle.lock().unwrap().on_node_down(self.id, "graceful");
        self.net.unregister(self.id);
        cur.ready.store(false, Ordering::SeqCst);
        cur.sm.close_storage();
        let _ = cur.shutdown_tx.send(());
        if let Some(m) = cur.main.take() {
            let _ = tokio::time::timeout(Duration::from_secs(30), m).await;
        }
        if let Some(io) = cur.io.take() {
            let _ = tokio::time::timeout(Duration::from_secs(30), io).await;
        }
        let _ = cur.sm.stop();
        let group = cur.group;
        // Drop our handles first so `Drop for Raft` (which persists hard state) runs unfenced.
        drop(cur);
        tokio::task::yield_now().await;
        tokio::verif::kill_group(group);
        tokio::task::yield_now().await;
        self.disk.lock().unwrap().live_incarnation = u64::MAX - 1;
        self.sm_obs.lock().unwrap().live_incarnation = u64::MAX - 1;
    }
}

async fn node_main(node: Arc<Node<MemT>>, ready: Arc<AtomicBool>, is_learner: bool, running: Arc<AtomicBool>) {
    hv::node_set_rpc_ready(&node, true);
    ready.store(true, Ordering::SeqCst);
    let core = hv::node_raft_core(&node);
    let mut raft = core.lock().await;
    if is_learner {
        // `Node::run_as_learner`: join first; a failed join ends `run()` with an error in the
        // real node. A supervisor would restart the process; we retry in place.
        loop {
            match raft.join_cluster().await {
                Ok(()) => break,
                Err(_e) => tokio::time::sleep(Duration::from_millis(500)).await,
            }
        }
    }
    running.store(true, Ordering::SeqCst);
    let _ = raft.run().await;
    running.store(false, Ordering::SeqCst);
}

#[allow(clippy::too_many_arguments)]
async fn build(
    node_id: u32,
    inc: u64,
    group: u64,
    node_config: RaftNodeConfig,
    disk: DiskRef,
    img: SmImageRef,
    obs: SmObsRef,
    net: Net,
) -> Incarnation {
    let (shutdown_tx, shutdown_rx) = watch::channel(());
    let (new_commit_event_tx, new_commit_event_rx) = mpsc::unbounded_channel::<NewCommitData>();

    let state_machine = Arc::new(ObservedSm::new(MemSm::open(&img), node_id, &obs));
    state_machine.start().await.expect("sm start");

    // lease cleanup worker (as NodeBuilder::spawn_background_cleanup_worker)
    {
        let sm = state_machine.clone();
        let interval_ms = node_config.raft.state_machine.lease.cleanup_interval_ms;
        let mut sd = shutdown_rx.clone();
        tokio::spawn(async move {
            let mut interval = tokio::time::interval(Duration::from_millis(interval_ms.max(1)));
            loop {
                tokio::select! {
                    _ = interval.tick() => { let _ = sm.lease_background_cleanup().await; }
                    _ = sd.changed() => break,
                }
            }
        });
    }

    let storage_engine = SimStorageEngine::open(&disk);
    let last_applied_index = state_machine.last_applied().index;
    let (internal_event_tx, internal_event_rx) = mpsc::unbounded_channel();

    let (raft_log, io_handle) = {
        let (log, receiver) = BufferedRaftLog::<MemT>::new(node_id, node_config.raft.persistence.clone(), storage_engine.clone());
        log.start_on_current_runtime(receiver, Some(internal_event_tx.clone()))
    };

    let (peer_failure_tx, mut peer_failure_rx) = mpsc::channel::<u32>(64);
    let (peer_success_tx, mut peer_success_rx) = mpsc::channel::<u32>(64);
    let cap = node_config.raft.replication.append_entries_max_entries_per_replication;
    let transport = SimTransport::<MemT>::new(node_id, inc, net.clone(), peer_failure_tx, peer_success_tx, cap);

    let snapshot_policy = LogSizePolicy::new(
        node_config.raft.snapshot.max_log_entries_before_snapshot,
        node_config.raft.snapshot.snapshot_cool_down_since_last_check,
    );

    // watch system
    let (broadcast_tx, broadcast_rx) = tokio::sync::broadcast::channel(node_config.raft.watch.event_queue_size);
    let (unregister_tx, unregister_rx) = mpsc::unbounded_channel();
    let registry = Arc::new(WatchRegistry::new_with_limits(
        node_config.raft.watch.watcher_buffer_size,
        node_config.raft.watch.max_watcher_count,
        unregister_tx,
    ));
    let last_applied_ref = Arc::new(std::sync::atomic::AtomicU64::new(last_applied_index));
    let dispatcher = WatchDispatcher::new(
        Arc::clone(&registry),
        broadcast_rx,
        unregister_rx,
        Arc::clone(&last_applied_ref),
        node_config.raft.watch.heartbeat_interval_ms,
    );
    tokio::spawn(async move {
        dispatcher.run().await;
    });

    let state_machine_handler = Arc::new(DefaultStateMachineHandler::<MemT>::new(
        node_id,
        last_applied_index,
        state_machine.clone(),
        node_config.raft.snapshot.clone(),
        snapshot_policy,
        Some(broadcast_tx),
        registry.prev_kv_watcher_count_arc(),
    ));

    let (membership_inner, mut zombie_rx) =
        hv::new_membership::<MemT>(node_id, node_config.cluster.initial_cluster.clone(), node_config.clone());
    let membership = Arc::new(membership_inner);
    let membership_rx = membership.subscribe_membership();

    let purge_executor = DefaultPurgeExecutor::new(raft_log.clone());

    let (event_tx, event_rx) = mpsc::channel(10240);
    let (cmd_tx, cmd_rx) = mpsc::channel(node_config.raft.cmd_channel_capacity);
    let internal_event_tx_clone = internal_event_tx.clone();
    let internal_event_tx_for_sm = internal_event_tx.clone();

    {
        let tx = internal_event_tx.clone();
        let m = membership.clone();
        tokio::spawn(async move {
            while let Some(nid) = zombie_rx.recv().await {
                if hv::membership_is_zombie_valid(&*m, nid) {
                    let _ = tx.send(InternalEvent::ZombieDetected(nid));
                }
            }
        });
        let m = membership.clone();
        tokio::spawn(async move {
            while let Some(p) = peer_failure_rx.recv().await {
                hv::membership_on_peer_stream_failed(&*m, p).await;
            }
        });
        let m = membership.clone();
        tokio::spawn(async move {
            while let Some(p) = peer_success_rx.recv().await {
                hv::membership_on_peer_stream_success(&*m, p).await;
            }
        });
    }

    let node_config_arc = Arc::new(node_config);
    let is_learner_cfg = node_config_arc.is_learner();
    let last_applied_index_opt = Some(state_machine.last_applied().index);
    let my_role = if is_learner_cfg {
        RaftRole::Learner(Box::new(LearnerState::new(node_id, node_config_arc.clone())))
    } else {
        RaftRole::Follower(Box::new(FollowerState::new(
            node_id,
            node_config_arc.clone(),
            raft_log.load_hard_state().expect("Failed to load hard state"),
            last_applied_index_opt,
        )))
    };
    let my_role_i32 = my_role.as_i32();
    let my_current_term = my_role.current_term();

    let mut raft_core = Raft::<MemT>::new(
        node_id,
        my_role,
        RaftStorageHandles::<MemT> { raft_log: raft_log.clone(), state_machine: state_machine.clone() },
        transport,
        RaftCoreHandlers::<MemT> {
            election_handler: ElectionHandler::new(node_id),
            replication_handler: ReplicationHandler::new(node_id),
            state_machine_handler: state_machine_handler.clone(),
            purge_executor: Arc::new(purge_executor),
        },
        membership.clone(),
        SignalParams::new(
            internal_event_tx,
            internal_event_rx,
            event_tx.clone(),
            event_rx,
            cmd_tx.clone(),
            cmd_rx,
            shutdown_rx.clone(),
        ),
        node_config_arc.clone(),
    );
    raft_core.register_new_commit_listener(new_commit_event_tx);

    let (sm_apply_tx, sm_apply_rx) = mpsc::unbounded_channel();
    let sm_worker = StateMachineWorker::<MemT>::new(
        node_id,
        state_machine_handler.clone(),
        sm_apply_rx,
        internal_event_tx_for_sm,
        shutdown_rx.clone(),
    );
    tokio::spawn(async move {
        let _ = sm_worker.run().await;
    });

    let deps = CommitHandlerDependencies::<MemT> {
        state_machine_handler: state_machine_handler.clone(),
        raft_log: raft_log.clone(),
        membership: membership.clone(),
        internal_event_tx: internal_event_tx_clone,
        sm_apply_tx,
        shutdown_signal: shutdown_rx.clone(),
        max_batch_size: node_config_arc.raft.batching.max_batch_size,
    };
    let mut commit_handler = DefaultCommitHandler::<MemT>::new(node_id, my_role_i32, my_current_term, deps, new_commit_event_rx);
    tokio::spawn(async move {
        let _ = commit_handler.run().await;
    });

    let read_lease = raft_core.read_lease();
    obs.lock().unwrap().lease = Some(read_lease.clone());
    let sm_read_actor = Arc::new(state_machine.with_tag("read_actor"));
    let sm_embedded = Arc::new(state_machine.with_tag("embedded"));
    let (read_tx, _read_actor) = hv::spawn_read_actor(
        node_config_arc.raft.read_actor.channel_capacity,
        Arc::clone(&read_lease),
        sm_read_actor,
        node_config_arc.raft.read_actor.max_drain,
    );

    let node = hv::new_node(hv::NodeParts::<MemT> {
        node_id,
        raft_core,
        membership: membership.clone(),
        event_tx: event_tx.clone(),
        cmd_tx: cmd_tx.clone(),
        membership_rx,
        node_config: node_config_arc.clone(),
        watch_registry: Some(registry.clone()),
        shutdown_signal: shutdown_rx.clone(),
        read_lease: read_lease.clone(),
        read_tx: Some(read_tx),
    });

    let ready = Arc::new(AtomicBool::new(false));
    let ep = Arc::new(NodeEndpoint::<MemT> {
        node: node.clone(),
        ready: ready.clone(),
        event_tx: event_tx.clone(),
        cfg: node_config_arc.clone(),
        shutdown_rx: shutdown_rx.clone(),
        group,
    });
    net.register(node_id, inc, ep);

    Incarnation {
        inc,
        group,
        node,
        raft_log,
        membership,
        sm: state_machine,
        sm_embedded,
        smh: state_machine_handler,
        lease: read_lease,
        cmd_tx,
        event_tx,
        shutdown_tx,
        cfg: node_config_arc,
        main: None,
        io: Some(io_handle),
        watch_registry: registry,
        ready,
        started_at_ms: crate::seams::vnow_ms(),
        is_learner_cfg,
        running: Arc::new(AtomicBool::new(false)),
    }
}

//! E1 `clustersim`: multi-node cluster runs (DESIGN.md §7).

use std::cell::RefCell;
use std::collections::{BTreeMap, HashMap};
use std::rc::Rc;
use std::sync::{Arc, Mutex};
use std::time::Duration;

use d_engine_core::{Membership, RaftLog};
use futures::FutureExt;
use serde_json::{Value, json};

use crate::clients::{History, HistoryRef, run_client};
use crate::net::{Net, NetConfig};
use crate::node::SimNode;
use crate::oracle::{Oracle, OracleRef, ROLE_LEADER, ROLE_LEARNER};
use crate::plan::{Fault, NodeSel, Plan, gen_plan};
use crate::world::{CommitLedger, LiveHandles, Registry, World, WorldRef, install_hook, node_config, payload_hash};

pub fn tmp_root() -> std::path::PathBuf {
    let base = std::env::var("VERIF_TMP").unwrap_or_else(|_| "/dev/shm".to_string());
    std::path::PathBuf::from(base).join(format!("dsim-{}", std::process::id()))
}

pub fn run_cli(seed: u64, kv: &HashMap<String, String>) -> i32 {
    let scenario = kv.get("scenario").cloned().unwrap_or_else(|| "general".to_string());
    let masked: Vec<String> = kv.get("mask").map(|s| s.split(',').filter(|x| !x.is_empty()).map(|x| x.to_string()).collect()).unwrap_or_default();
    let plan: Plan = match kv.get("plan") {
        Some(p) => {
            let txt = std::fs::read_to_string(p).expect("read plan");
            let v: Value = serde_json::from_str(&txt).expect("plan json");
            let pv = v.get("plan").cloned().unwrap_or(v);
            serde_json::from_value(pv).expect("plan schema")
        }
        None => gen_plan(seed, &scenario, &masked),
    };
    if kv.contains_key("print-plan") {
        println!("{}", serde_json::to_string_pretty(&plan).unwrap());
        return 0;
    }
    let result = run_plan(plan, kv.contains_key("trace"));
    let out = serde_json::to_string(&result).unwrap();
    if let Some(p) = kv.get("out") {
        std::fs::write(p, &out).unwrap();
    } else {
        eprintln!("RESULT {out}");
    }
    0
}

/// Run one plan on a fresh thread: the thread-local hash-map keys (std `RandomState`) and
/// every other lazily seeded thread-local RNG are then drawn from the run's seeded stream.
pub fn run_plan(plan: Plan, trace: bool) -> Value {
    std::thread::Builder::new()
        .name("sim".into())
        .stack_size(256 << 20)
        .spawn(move || run_plan_on_this_thread(plan, trace))
        .expect("spawn sim thread")
        .join()
        .unwrap_or_else(|_| json!({"harness_error": "simulator thread panicked"}))
}

fn run_plan_on_this_thread(plan: Plan, trace: bool) -> Value {
    crate::seams::enter_sim_thread(plan.seed);
    crate::seams::reset_time();
    crate::oracle::reset_event_seq();
    tokio::verif::reset();
    let root = tmp_root();
    let _ = std::fs::remove_dir_all(&root);
    std::fs::create_dir_all(&root).unwrap();
    // private TMPDIR: d-engine's snapshot install uses tempfile::tempdir()
    unsafe { std::env::set_var("TMPDIR", root.join("tmp")) };
    std::fs::create_dir_all(root.join("tmp")).unwrap();
    let wall = std::time::Instant::now;
    let _ = wall;
    let rt = tokio::runtime::Builder::new_current_thread().enable_time().start_paused(true).build().unwrap();
    let local = tokio::task::LocalSet::new();
    let root2 = root.clone();
    let result = local.block_on(&rt, async move {
        d_engine_core::init_clock();
        run(plan, &root2, trace).await
    });
    d_engine_core::verif::clear_hook();
    drop(local);
    drop(rt);
    let _ = std::fs::remove_dir_all(&root);
    result
}

fn resolve(world: &World, sel: &NodeSel) -> Option<u32> {
    let up = world.up_nodes();
    let o = world.oracle.lock().unwrap();
    let leader = o
        .views
        .iter()
        .filter(|(id, v)| v.role == ROLE_LEADER && v.up && up.contains(id))
        .max_by_key(|(_, v)| v.term)
        .map(|(id, _)| *id);
    match sel {
        NodeSel::Id(i) => Some(*i),
        NodeSel::Leader => leader.or_else(|| up.first().copied()),
        NodeSel::Follower(k) => {
            let f: Vec<u32> = up
                .iter()
                .filter(|i| Some(**i) != leader && o.views.get(i).map(|v| v.role) != Some(ROLE_LEARNER))
                .copied()
                .collect();
            if f.is_empty() { None } else { Some(f[*k as usize % f.len()]) }
        }
        NodeSel::Any(k) => {
            if up.is_empty() { None } else { Some(up[*k as usize % up.len()]) }
        }
    }
}

async fn start_node(world: &WorldRef, id: u32) {
    let taken = world.borrow_mut().nodes.get_mut(&id).and_then(|n| n.take());
    let Some(mut node) = taken else { return };
    if !node.is_up() {
        node.start().await;
        if node.inc_counter > 1 {
            check_membership_after_restart(world, &node).await;
        }
        if let Some(cur) = &node.cur {
            let w = world.borrow();
            w.registry
                .lock()
                .unwrap()
                .live
                .insert(id, LiveHandles { log: cur.raft_log.clone(), membership: cur.membership.clone() });
            // C31: drain leader notifications of this incarnation
            let mut rx = cur.node.leader_change_notifier();
            let oracle = w.oracle.clone();
            tokio::task::spawn_local(async move {
                loop {
                    if rx.changed().await.is_err() {
                        break;
                    }
                    let v = rx.borrow_and_update().clone();
                    oracle.lock().unwrap().on_leader_note(id, v.map(|l| (l.leader_id, l.term)));
                }
            });
        }
    }
    world.borrow_mut().nodes.insert(id, Some(node));
}

/// Fold the committed membership changes with index in (from, to] over `base` (id -> is_learner).
/// `None` if the commit ledger has a hole in that range.
fn fold_membership(led: &crate::world::CommitLedger, base: &BTreeMap<u32, bool>, from: u64, to: u64) -> Option<(BTreeMap<u32, bool>, u64)> {
    use d_engine_proto::common::entry_payload::Payload;
    use d_engine_proto::common::membership_change::Change;
    let mut model = base.clone();
    let mut n = 0;
    for i in (from + 1)..=to {
        let le = led.by_index.get(&i)?;
        if let Some(Payload::Config(mc)) = le.entry.payload.as_ref().and_then(|p| p.payload.clone()) {
            n += 1;
            match mc.change {
                Some(Change::AddNode(a)) => {
                    model.insert(a.node_id, true);
                }
                Some(Change::RemoveNode(r)) => {
                    model.remove(&r.node_id);
                }
                Some(Change::Promote(p)) => {
                    if let Some(x) = model.get_mut(&p.node_id) {
                        *x = false;
                    }
                }
                Some(Change::BatchPromote(bp)) => {
                    for id in bp.node_ids {
                        if let Some(x) = model.get_mut(&id) {
                            *x = false;
                        }
                    }
                }
                Some(Change::BatchRemove(br)) => {
                    for id in br.node_ids {
                        model.remove(&id);
                    }
                }
                None => {}
            }
        }
    }
    Some((model, n))
}

/// C28, second half: a membership change that a restarted node applies again after the restart (its state machine
/// had not applied it yet when the node went down) must be in its view. Evaluated at the end of the run.
async fn check_membership_replayed_after_restart(world: &WorldRef) {
    let ids: Vec<u32> = world.borrow().nodes.keys().copied().collect();
    for id in ids {
        let (members_fut, initial, restart_applied, applied_now, oracle, ledger, kind) = {
            let w = world.borrow();
            let Some(Some(n)) = w.nodes.get(&id) else { continue };
            let Some(cur) = n.cur.as_ref() else { continue };
            let Some(ra) = w.restart_applied.get(&id).copied() else { continue };
            let mut initial: BTreeMap<u32, bool> = BTreeMap::new();
            for m in cur.cfg.cluster.initial_cluster.iter() {
                initial.insert(m.id, m.role == d_engine_proto::common::NodeRole::Learner as i32);
            }
            (cur.membership.clone(), initial, ra, n.sm_img.lock().unwrap().last_applied.0, w.oracle.clone(), w.ledger.clone(), n.last_down_kind.clone())
        };
        let members = members_fut.members().await;
        let mut got: BTreeMap<u32, bool> = BTreeMap::new();
        for m in members.iter() {
            got.insert(m.id, m.role == d_engine_proto::common::NodeRole::Learner as i32);
        }
        let led = ledger.lock().unwrap();
        let Some((true_fold, _)) = fold_membership(&led, &initial, 0, applied_now) else { continue };
        let Some((after_restart_fold, n_replayed)) = fold_membership(&led, &initial, restart_applied, applied_now) else { continue };
        let mut o = oracle.lock().unwrap();
        if n_replayed > 0 {
            o.probe("c28_membership_change_applied_after_restart");
        }
        // `after_restart_fold` is what remains when the changes at or below the applied index at restart are lost
        // (known finding KF16, reported at the restart itself); anything else is a different loss
        if got != true_fold && got != after_restart_fold {
            let fmt = |m: &BTreeMap<u32, bool>| m.iter().map(|(k, l)| format!("{}{}", k, if *l { "L" } else { "V" })).collect::<Vec<_>>();
            o.violate(
                "C28",
                "membership_change_applied_after_restart_missing",
                json!({"node": id, "expected": fmt(&true_fold), "expected_if_only_pre_restart_changes_were_lost": fmt(&after_restart_fold),
                       "got": fmt(&got), "applied_at_restart": restart_applied, "applied_now": applied_now,
                       "changes_applied_after_restart": n_replayed, "restart_kind": kind, "equals_initial_config": got == initial}),
            );
        }
    }
}

/// C28: right after a restart the node's membership view must equal its initial configuration plus every
/// committed membership change at or below its applied index (fold over the commit ledger).
async fn check_membership_after_restart(world: &WorldRef, node: &SimNode) {
    use d_engine_proto::common::membership_change::Change;
    use d_engine_proto::common::entry_payload::Payload;
    let Some(cur) = &node.cur else { return };
    let applied = node.sm_img.lock().unwrap().last_applied.0;
    world.borrow_mut().restart_applied.insert(node.id, applied);
    let (oracle, ledger) = {
        let w = world.borrow();
        (w.oracle.clone(), w.ledger.clone())
    };
    // the node's view first (no borrow of the world or lock is held across the await)
    let members = cur.membership.members().await;
    let led = ledger.lock().unwrap();
    // initial configuration of this node
    let mut model: BTreeMap<u32, bool> = BTreeMap::new(); // id -> is_learner
    for m in cur.cfg.cluster.initial_cluster.iter() {
        model.insert(m.id, m.role == d_engine_proto::common::NodeRole::Learner as i32);
    }
    let initial = model.clone();
    let mut n_changes = 0;
    for i in 1..=applied {
        let Some(le) = led.by_index.get(&i) else {
            // ledger incomplete (entries compacted before any node reported them): cannot judge
            oracle.lock().unwrap().probe("c28_not_checked_ledger_incomplete");
            return;
        };
        if let Some(Payload::Config(mc)) = le.entry.payload.as_ref().and_then(|p| p.payload.clone()) {
            n_changes += 1;
            match mc.change {
                Some(Change::AddNode(a)) => {
                    model.insert(a.node_id, true);
                }
                Some(Change::RemoveNode(r)) => {
                    model.remove(&r.node_id);
                }
                Some(Change::Promote(p)) => {
                    if let Some(x) = model.get_mut(&p.node_id) {
                        *x = false;
                    }
                }
                Some(Change::BatchPromote(bp)) => {
                    for id in bp.node_ids {
                        if let Some(x) = model.get_mut(&id) {
                            *x = false;
                        }
                    }
                }
                Some(Change::BatchRemove(br)) => {
                    for id in br.node_ids {
                        model.remove(&id);
                    }
                }
                None => {}
            }
        }
    }
    let mut got: BTreeMap<u32, bool> = BTreeMap::new();
    for m in members.iter() {
        got.insert(m.id, m.role == d_engine_proto::common::NodeRole::Learner as i32);
    }
    let mut o = oracle.lock().unwrap();
    o.probe("c28_restart_checked");
    if n_changes > 0 {
        o.probe("c28_restart_after_applied_membership_change");
    }
    if got != model {
        let fmt = |m: &BTreeMap<u32, bool>| m.iter().map(|(k, l)| format!("{}{}", k, if *l { "L" } else { "V" })).collect::<Vec<_>>();
        o.violate(
            "C28",
            "membership_regressed_after_restart",
            json!({"node": node.id, "expected": fmt(&model), "got": fmt(&got), "applied_index": applied,
                   "membership_changes_applied": n_changes, "restart_kind": node.last_down_kind,
                   "equals_initial_config": got == initial}),
        );
    }
}

async fn stop_node(world: &WorldRef, id: u32, how: u8, choice: u64) {
    let taken = world.borrow_mut().nodes.get_mut(&id).and_then(|n| n.take());
    let Some(mut node) = taken else { return };
    world.borrow().registry.lock().unwrap().live.remove(&id);
    match how {
        0 => node.crash(false, choice),
        1 => node.crash(true, choice),
        _ => node.stop_gracefully().await,
    }
    world.borrow_mut().nodes.insert(id, Some(node));
}

/// Non-graceful stop of `id` (subject to the minority rule), downtime, restart.
async fn crash_checked(world: &WorldRef, id: u32, power_loss: bool, down_ms: u64, choice: u64, kind_name: &str) {
    // never take down a majority of the voters at once (property quantifier of C05/C10:
    // "crash and restart of any minority of voting nodes"). With mask `sole_voter_crash`
    // the rule is strict: the crashed set D must be a minority of every voter
    // configuration the run can reach (plan voters V plus any promoted learners L):
    // 2*|D∩V| + |D∩L| < |V|; the sole voter of a 1-voter cluster is then restarted
    // gracefully instead (a crash of 1 of 1 voters is not a minority crash). Without the
    // mask (C02 batches: vote/term persistence of any node) the sole voter may crash.
    let (ok, as_graceful) = {
        let w = world.borrow();
        let up = w.up_nodes();
        let voters = w.plan.voters.len();
        let strict = w.plan.masked.iter().any(|m| m == "sole_voter_crash");
        if strict {
            let is_down_after = |n: &u32| *n == id || !up.contains(n);
            let dv = w.plan.voters.iter().filter(|v| is_down_after(v)).count();
            let dl = w.plan.learners.iter().filter(|l| is_down_after(l)).count();
            let ok = 2 * dv + dl < voters;
            (ok, !ok && voters == 1 && w.plan.voters.contains(&id))
        } else {
            let down = w.plan.voters.iter().filter(|v| !up.contains(v)).count();
            (!w.plan.voters.contains(&id) || (down + 1) * 2 < voters || voters == 1, false)
        }
    };
    if (ok || as_graceful) && world.borrow().up_nodes().contains(&id) {
        if as_graceful {
            stop_node(world, id, 2, choice).await;
            world.borrow_mut().fire("sole_voter_graceful_restart");
        } else {
            stop_node(world, id, if power_loss { 1 } else { 0 }, choice).await;
            world.borrow_mut().fire(kind_name);
        }
        tokio::time::sleep(Duration::from_millis(down_ms)).await;
        start_node(world, id).await;
    }
}

async fn exec_fault(world: WorldRef, f: Fault) {
    tokio::time::sleep(Duration::from_millis(f.at())).await;
    let seed = world.borrow().plan.seed;
    let choice = crate::rng::keyed(seed, &[f.at(), 0xFA]);
    let all: Vec<u32> = world.borrow().nodes.keys().copied().collect();
    world.borrow_mut().faults_active += 1;
    match f.clone() {
        Fault::Partition { dur, side, .. } => {
            let ids: Vec<u32> = {
                let w = world.borrow();
                let mut v: Vec<u32> = side.iter().filter_map(|s| resolve(&w, s)).collect();
                v.sort();
                v.dedup();
                v
            };
            let rest: Vec<u32> = all.iter().filter(|i| !ids.contains(i)).copied().collect();
            if !ids.is_empty() && !rest.is_empty() {
                let net = world.borrow().net.clone();
                net.partition(&ids, &rest);
                world.borrow_mut().fire(f.kind_name());
                world.borrow().oracle.lock().unwrap().trace("partition", ids[0] as u64, ids.len() as u64, dur);
                tokio::time::sleep(Duration::from_millis(dur)).await;
                let mut g = net.inner.lock().unwrap();
                for a in &ids {
                    for b in &rest {
                        g.blocked.remove(&(*a, *b));
                        g.blocked.remove(&(*b, *a));
                    }
                }
            }
        }
        Fault::OneWay { dur, node, outbound, .. } => {
            let id = resolve(&world.borrow(), &node);
            if let Some(id) = id {
                let net = world.borrow().net.clone();
                let pairs: Vec<(u32, u32)> =
                    all.iter().filter(|o| **o != id).map(|o| if outbound { (id, *o) } else { (*o, id) }).collect();
                for p in &pairs {
                    net.block(p.0, p.1);
                }
                world.borrow_mut().fire(f.kind_name());
                tokio::time::sleep(Duration::from_millis(dur)).await;
                let mut g = net.inner.lock().unwrap();
                for p in &pairs {
                    g.blocked.remove(p);
                }
            }
        }
        Fault::Crash { node, power_loss, down_ms, .. } => {
            let id = resolve(&world.borrow(), &node);
            if let Some(id) = id {
                crash_checked(&world, id, power_loss, down_ms, choice, f.kind_name()).await;
            }
        }
        Fault::CrashOnGrant { nth, power_loss, down_ms, .. } => {
            let mut rx = {
                let w = world.borrow();
                let mut o = w.oracle.lock().unwrap();
                match &o.grant_signal {
                    Some(tx) => tx.subscribe(),
                    None => {
                        let (tx, rx) = tokio::sync::watch::channel((o.grant_count, 0u32));
                        o.grant_signal = Some(tx);
                        rx
                    }
                }
            };
            let base = rx.borrow().0;
            loop {
                if world.borrow().in_quiet || rx.changed().await.is_err() {
                    break;
                }
                if world.borrow().in_quiet {
                    break;
                }
                let (c, voter) = *rx.borrow();
                if c >= base + nth as u64 {
                    crash_checked(&world, voter, power_loss, down_ms, choice, f.kind_name()).await;
                    break;
                }
            }
        }
        Fault::IsolateNewLeader { nth, dur, crash, .. } => {
            let mut rx = {
                let w = world.borrow();
                let mut o = w.oracle.lock().unwrap();
                match &o.leader_signal {
                    Some(tx) => tx.subscribe(),
                    None => {
                        let (tx, rx) = tokio::sync::watch::channel((o.leader_transitions, 0u32));
                        o.leader_signal = Some(tx);
                        rx
                    }
                }
            };
            let base = rx.borrow().0;
            loop {
                if world.borrow().in_quiet || rx.changed().await.is_err() {
                    break;
                }
                if world.borrow().in_quiet {
                    break;
                }
                let (c, node) = *rx.borrow();
                if c >= base + nth as u64 {
                    if crash {
                        crash_checked(&world, node, false, dur.min(3000), choice, f.kind_name()).await;
                    } else {
                        let rest: Vec<u32> = all.iter().filter(|i| **i != node).copied().collect();
                        if !rest.is_empty() {
                            let net = world.borrow().net.clone();
                            net.partition(&[node], &rest);
                            world.borrow_mut().fire(f.kind_name());
                            world.borrow().oracle.lock().unwrap().trace("isolate_new_leader", node as u64, dur, 0);
                            tokio::time::sleep(Duration::from_millis(dur)).await;
                            let mut g = net.inner.lock().unwrap();
                            for b in &rest {
                                g.blocked.remove(&(node, *b));
                                g.blocked.remove(&(*b, node));
                            }
                        }
                    }
                    break;
                }
            }
        }
        Fault::Graceful { node, down_ms, .. } => {
            let id = resolve(&world.borrow(), &node);
            if let Some(id) = id {
                if world.borrow().up_nodes().contains(&id) {
                    stop_node(&world, id, 2, choice).await;
                    world.borrow_mut().fire(f.kind_name());
                    tokio::time::sleep(Duration::from_millis(down_ms)).await;
                    start_node(&world, id).await;
                }
            }
        }
        Fault::FullRestart { down_ms, .. } => {
            let up = world.borrow().up_nodes();
            for id in &up {
                stop_node(&world, *id, 2, choice).await;
            }
            world.borrow_mut().fire(f.kind_name());
            tokio::time::sleep(Duration::from_millis(down_ms)).await;
            for id in &up {
                start_node(&world, *id).await;
            }
        }
        Fault::SlowLink { dur, src, dst, extra_ms, .. } => {
            let (a, b) = {
                let w = world.borrow();
                (resolve(&w, &src), resolve(&w, &dst))
            };
            if let (Some(a), Some(b)) = (a, b) {
                if a != b {
                    let net = world.borrow().net.clone();
                    net.inner.lock().unwrap().cfg.slow_links.insert((a, b), extra_ms);
                    world.borrow_mut().fire(f.kind_name());
                    tokio::time::sleep(Duration::from_millis(dur)).await;
                    net.inner.lock().unwrap().cfg.slow_links.remove(&(a, b));
                }
            }
        }
        Fault::SlowReturn { dur, node, extra_ms, .. } => {
            let id = resolve(&world.borrow(), &node);
            if let Some(id) = id {
                let net = world.borrow().net.clone();
                for o in all.iter().filter(|o| **o != id) {
                    net.inner.lock().unwrap().cfg.slow_links.insert((*o, id), extra_ms);
                }
                world.borrow_mut().fire(f.kind_name());
                tokio::time::sleep(Duration::from_millis(dur)).await;
                for o in all.iter().filter(|o| **o != id) {
                    net.inner.lock().unwrap().cfg.slow_links.remove(&(*o, id));
                }
            }
        }
        Fault::BreakStreams { a, b, .. } => {
            let (x, y) = {
                let w = world.borrow();
                (resolve(&w, &a), resolve(&w, &b))
            };
            if let (Some(x), Some(y)) = (x, y) {
                let n = world.borrow().net.break_streams(x, y);
                if n > 0 {
                    world.borrow_mut().fire(f.kind_name());
                }
            }
        }
        Fault::DiskStall { node, dur, .. } => {
            let id = resolve(&world.borrow(), &node);
            if let Some(id) = id {
                let w = world.borrow();
                if let Some(Some(n)) = w.nodes.get(&id) {
                    n.disk.lock().unwrap().faults.stall_until_ms = crate::seams::vnow_ms() + dur;
                }
                drop(w);
                world.borrow_mut().fire(f.kind_name());
                tokio::time::sleep(Duration::from_millis(dur)).await;
            }
        }
        Fault::ApplyStall { node, dur, .. } => {
            let id = resolve(&world.borrow(), &node);
            if let Some(id) = id {
                let w = world.borrow();
                if let Some(Some(n)) = w.nodes.get(&id) {
                    n.sm_obs.lock().unwrap().stall_until_ms = crate::seams::vnow_ms() + dur;
                }
                drop(w);
                world.borrow_mut().fire(f.kind_name());
                tokio::time::sleep(Duration::from_millis(dur)).await;
            }
        }
        Fault::DropRate { dur, per_mille, .. } => {
            let net = world.borrow().net.clone();
            let old = {
                let mut g = net.inner.lock().unwrap();
                let o = g.cfg.drop_per_mille;
                g.cfg.drop_per_mille = per_mille;
                o
            };
            world.borrow_mut().fire(f.kind_name());
            tokio::time::sleep(Duration::from_millis(dur)).await;
            net.inner.lock().unwrap().cfg.drop_per_mille = old;
        }
        Fault::Join { node, .. } => {
            start_node(&world, node).await;
            world.borrow_mut().fire(f.kind_name());
        }
    }
    world.borrow_mut().faults_active -= 1;
}

/// Periodic structural invariants over live handles: C04 (log matching, gap-free), C26.
async fn checker(world: WorldRef) {
    let mut prefix_ok: HashMap<u32, (u64, u64)> = HashMap::new(); // node -> (inc, matched committed prefix)
    loop {
        tokio::time::sleep(Duration::from_millis(25)).await;
        crate::checks::structural_checks(&world, &mut prefix_ok);
    }
}

async fn run(plan: Plan, root: &std::path::Path, trace: bool) -> Value {
    let oracle: OracleRef = Oracle::new(trace);
    oracle.lock().unwrap().learner_cfg_nodes = plan.learners.iter().copied().collect();
    let k = plan.knobs.clone();
    let net = Net::new(
        plan.seed,
        NetConfig {
            latency_ms: k.net_latency,
            drop_per_mille: k.drop_per_mille,
            slow_links: HashMap::new(),
            keepalive_ms: k.keepalive_ms,
            datagram: false,
            dup_per_mille: 0,
        },
        oracle.clone(),
    );
    let registry = Arc::new(Mutex::new(Registry::default()));
    let ledger = Arc::new(Mutex::new(CommitLedger::default()));
    install_hook(oracle.clone(), registry.clone(), ledger.clone());

    let mut nodes: BTreeMap<u32, Option<SimNode>> = BTreeMap::new();
    let voters_m: Vec<(u32, bool)> = plan.voters.iter().map(|v| (*v, false)).collect();
    let mut config_errors = Vec::new();
    for id in plan.voters.iter().chain(plan.learners.iter()) {
        let mut members = voters_m.clone();
        if plan.learners.contains(id) {
            members.push((*id, true));
        }
        let cfg = match node_config(*id, &members, root, &k).validate() {
            Ok(c) => c,
            Err(e) => {
                config_errors.push(format!("{e:?}"));
                continue;
            }
        };
        // C12(e)/C34 side assertion on every accepted configuration
        let rc = &cfg.raft.read_consistency;
        if rc.lease_duration_ms >= cfg.raft.election.election_timeout_min {
            oracle.lock().unwrap().violate(
                "C12",
                "accepted_config_lease_not_below_election_timeout",
                json!({"lease": rc.lease_duration_ms, "election_min": cfg.raft.election.election_timeout_min}),
            );
        }
        let n = SimNode::new(*id, plan.seed, cfg, net.clone(), oracle.clone());
        n.disk.lock().unwrap().faults.latency_ms = k.disk_latency;
        n.sm_obs.lock().unwrap().apply_latency_ms = k.apply_latency;
        nodes.insert(*id, Some(n));
    }
    if !config_errors.is_empty() {
        return json!({"seed": plan.seed, "harness_error": format!("config rejected: {config_errors:?}"), "plan": plan});
    }
    let world: WorldRef = Rc::new(RefCell::new(World {
        plan: plan.clone(),
        nodes,
        net: net.clone(),
        oracle: oracle.clone(),
        registry,
        ledger: ledger.clone(),
        root: root.to_path_buf(),
        fired: BTreeMap::new(),
        faults_active: 0,
        in_quiet: false,
        restart_applied: BTreeMap::new(),
    }));
    for id in plan.voters.iter() {
        start_node(&world, *id).await;
    }
    let hist: HistoryRef = Rc::new(RefCell::new(History::default()));
    let chk = tokio::task::spawn_local(checker(world.clone()));
    let mut fault_tasks = Vec::new();
    for f in plan.faults.iter() {
        fault_tasks.push(tokio::task::spawn_local(exec_fault(world.clone(), f.clone())));
    }
    let watch_logs: crate::watchers::WatchLogs = Rc::new(RefCell::new(Vec::new()));
    for (i, wp) in plan.watchers.iter().enumerate() {
        tokio::task::spawn_local(crate::watchers::run_watcher(world.clone(), watch_logs.clone(), i, wp.clone()));
    }
    let mut client_tasks = Vec::new();
    for c in plan.clients.iter() {
        client_tasks.push(tokio::task::spawn_local(run_client(world.clone(), hist.clone(), c.clone(), plan.horizon_ms)));
    }
    tokio::time::sleep(Duration::from_millis(plan.horizon_ms)).await;
    // ── faults stop: wait for fault items in progress, heal, restart everything that is down ──
    for t in fault_tasks {
        let _ = tokio::time::timeout(Duration::from_secs(20), t).await;
    }
    for t in client_tasks {
        let _ = tokio::time::timeout(Duration::from_secs(10), t).await;
    }
    {
        net.unblock_all();
        let mut g = net.inner.lock().unwrap();
        g.cfg.slow_links.clear();
        g.cfg.drop_per_mille = 0;
    }
    let all: Vec<u32> = world.borrow().nodes.keys().copied().collect();
    let started: Vec<u32> = {
        let w = world.borrow();
        all.iter()
            .filter(|id| w.plan.voters.contains(id) || w.fired.get("join").is_some() && w.nodes.get(id).is_some_and(|n| n.as_ref().is_some_and(|n| n.inc_counter > 0)))
            .copied()
            .collect()
    };
    for id in started.iter() {
        if !world.borrow().up_nodes().contains(id) {
            start_node(&world, *id).await;
        }
    }
    for id in all.iter() {
        let w = world.borrow();
        if let Some(Some(n)) = w.nodes.get(id) {
            n.disk.lock().unwrap().faults.stall_until_ms = 0;
            n.sm_obs.lock().unwrap().stall_until_ms = 0;
        }
    }
    world.borrow_mut().in_quiet = true;
    let heal_ms = crate::seams::vnow_ms();
    tokio::time::sleep(Duration::from_millis(plan.quiet_ms)).await;
    let liveness = crate::checks::quiet_checks(&world, &hist).await;
    chk.abort();
    let mut prefix_ok = HashMap::new();
    crate::checks::structural_checks(&world, &mut prefix_ok);
    check_membership_replayed_after_restart(&world).await;
    let fin = crate::checks::final_checks(&world, &hist);
    crate::watchers::check_watchers(&world, &watch_logs);

    // ── result ──
    let w = world.borrow();
    let o = oracle.lock().unwrap();
    let stats = net.inner.lock().unwrap().stats.clone();
    let mut node_info = serde_json::Map::new();
    let mut disk_tot = (0u64, 0u64, 0u64);
    for (id, n) in w.nodes.iter() {
        let Some(n) = n else { continue };
        let d = n.disk.lock().unwrap();
        disk_tot.0 += d.stats.persist_calls;
        disk_tot.1 += d.stats.flush_calls;
        disk_tot.2 += d.stats.fenced_calls;
        let (last, first, durable) = n
            .cur
            .as_ref()
            .map(|c| (c.raft_log.last_entry_id(), c.raft_log.first_entry_id(), c.raft_log.durable_index()))
            .unwrap_or((0, 0, 0));
        node_info.insert(
            id.to_string(),
            json!({"up": n.is_up(), "inc": n.inc_counter, "last": last, "first": first, "durable": durable,
                   "applied": n.sm_img.lock().unwrap().last_applied.0,
                   "applies": n.sm_obs.lock().unwrap().applies.len(),
                   "snapshots": n.sm_obs.lock().unwrap().snapshots.len()}),
        );
    }
    let h = hist.borrow();
    let mut oc: BTreeMap<String, u64> = BTreeMap::new();
    for op in h.ops.iter() {
        let k = match &op.outcome {
            crate::clients::Outcome::WriteOk(_) => "write_ok",
            crate::clients::Outcome::ReadOk(_) => "read_ok",
            crate::clients::Outcome::ScanOk { .. } => "scan_ok",
            crate::clients::Outcome::Rejected(_) => "rejected",
            crate::clients::Outcome::Indeterminate(_) => "indeterminate",
            crate::clients::Outcome::Unresolved(_) => "unresolved",
        };
        *oc.entry(k.to_string()).or_insert(0) += 1;
    }
    let faults_fired: u64 = w.fired.values().sum();
    let committed = ledger.lock().unwrap().by_index.len();
    let nontrivial = faults_fired > 0 && committed > 1 && oc.get("write_ok").copied().unwrap_or(0) > 0;
    let mut res = json!({
        "seed": plan.seed,
        "scenario": plan.scenario,
        "vtime_ms": crate::seams::vnow_ms(),
        "heal_ms": heal_ms,
        "nodes": node_info,
        "ops": h.ops.len(),
        "outcomes": oc,
        "faults_fired": w.fired,
        "committed": committed,
        "nontrivial": nontrivial,
        "net": {"sent": stats.sent, "delivered": stats.delivered, "dropped_random": stats.dropped_random,
                "dropped_partition": stats.dropped_partition, "refused_down": stats.refused_down,
                "streams_opened": stats.streams_opened, "streams_broken": stats.streams_broken,
                "stream_stalls": stats.stream_stalls, "snapshots_pushed": stats.snapshots_pushed,
                "snapshots_push_failed": stats.snapshots_push_failed, "slow_link_msgs": stats.slow_link_msgs, "append_delivered_after_stream_reset": stats.delivered_after_break},
        "disk": {"persist_calls": disk_tot.0, "flush_calls": disk_tot.1, "fenced_calls": disk_tot.2},
        "oracle": o.summary(),
        "liveness": liveness,
        "final": fin,
        "draws": crate::seams::random_draws(),
        "event_seq": crate::oracle::current_event_seq(),
        "plan_summary": {"voters": plan.voters.len(), "learners": plan.learners.len(), "faults": plan.faults.len(),
                         "clients": plan.clients.len(), "horizon_ms": plan.horizon_ms, "quiet_ms": plan.quiet_ms},
    });
    if trace {
        res["trace_log"] = json!(o.trace_log.clone().unwrap_or_default());
        res["history"] = json!(h.ops);
        res["watchers"] = json!(*watch_logs.borrow());
        let mut ap = serde_json::Map::new();
        for (id, n) in w.nodes.iter() {
            if let Some(n) = n {
                let obs = n.sm_obs.lock().unwrap();
                ap.insert(id.to_string(), json!(obs.applies.iter().map(|a| (a.inc, a.index, a.term, a.vtime_ms)).collect::<Vec<_>>()));
            }
        }
        res["applies"] = serde_json::Value::Object(ap);
    }
    if !o.violations.is_empty() {
        res["plan"] = serde_json::to_value(&plan).unwrap();
        if !trace {
            res["history_tail"] = json!(h.ops.iter().rev().take(30).collect::<Vec<_>>());
        }
    }
    let _ = payload_hash;
    res
}

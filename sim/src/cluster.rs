//! E1 `clustersim`: multi-node cluster runs (DESIGN.md §7).

use std::collections::{BTreeMap, HashMap};
use std::rc::Rc;
use std::sync::atomic::Ordering;
use std::sync::{Arc, Mutex};
use std::time::Duration;

use bytes::Bytes;
use d_engine_core::client::{ClientResponse, ClientWriteRequest, ErrorCode, WriteOperation};
use d_engine_core::{ClientCmd, MaybeCloneOneshot, RaftLog, RaftNodeConfig, RaftOneshot};
use d_engine_proto::common::{NodeRole, NodeStatus};
use d_engine_proto::server::cluster::NodeMeta;
use serde_json::json;

use crate::net::{Net, NetConfig};
use crate::node::SimNode;
use crate::oracle::{Oracle, OracleRef};
use crate::rng::Rng;

pub fn tmp_root() -> std::path::PathBuf {
    let base = std::env::var("VERIF_TMP").unwrap_or_else(|_| "/dev/shm".to_string());
    std::path::PathBuf::from(base).join(format!("dsim-{}", std::process::id()))
}

pub fn base_config(node_id: u32, members: &[(u32, bool)], root: &std::path::Path) -> RaftNodeConfig {
    let mut cfg = RaftNodeConfig::default();
    cfg.cluster.node_id = node_id;
    cfg.cluster.initial_cluster = members
        .iter()
        .map(|(id, learner)| NodeMeta {
            id: *id,
            address: format!("127.0.0.1:{}", 9000 + id),
            role: if *learner { NodeRole::Learner as i32 } else { NodeRole::Follower as i32 },
            status: if *learner { NodeStatus::Promotable as i32 } else { NodeStatus::Active as i32 },
        })
        .collect();
    let dir = root.join(format!("n{node_id}"));
    cfg.cluster.db_root_dir = dir.join("db");
    cfg.cluster.log_dir = dir.join("logs");
    cfg.raft.snapshot.snapshots_dir = dir.join("snapshots");
    cfg
}

pub fn run_cli(seed: u64, kv: &HashMap<String, String>) -> i32 {
    crate::seams::enter_sim_thread(seed);
    crate::oracle::reset_event_seq();
    let root = tmp_root();
    let _ = std::fs::remove_dir_all(&root);
    std::fs::create_dir_all(&root).unwrap();
    // d-engine prints role changes with println!; keep stdout for the result only.
    let rt = tokio::runtime::Builder::new_current_thread().enable_time().start_paused(true).build().unwrap();
    let trace = kv.contains_key("trace");
    let result = rt.block_on(async move {
        d_engine_core::init_clock();
        run_basic(seed, &root, trace).await
    });
    drop(rt);
    let _ = std::fs::remove_dir_all(tmp_root());
    let out = serde_json::to_string(&result).unwrap();
    if let Some(p) = kv.get("out") {
        std::fs::write(p, &out).unwrap();
    } else {
        eprintln!("RESULT {out}");
    }
    0
}

async fn run_basic(seed: u64, root: &std::path::Path, trace: bool) -> serde_json::Value {
    let oracle: OracleRef = Oracle::new(trace);
    let net = Net::new(seed, NetConfig::default(), oracle.clone());
    // state hook
    {
        let o = oracle.clone();
        d_engine_core::verif::set_hook(Rc::new(move |ev| {
            if let d_engine_core::verif::Event::State(v) = ev {
                o.lock().unwrap().on_state(v.node_id, v.role, v.term, v.commit_index, v.voted_for, v.leader);
            }
        }));
    }
    let members: Vec<(u32, bool)> = vec![(1, false), (2, false), (3, false)];
    let mut nodes: BTreeMap<u32, SimNode> = BTreeMap::new();
    for (id, _) in &members {
        let cfg = base_config(*id, &members, root).validate().expect("config validates");
        nodes.insert(*id, SimNode::new(*id, seed, cfg, net.clone(), oracle.clone()));
    }
    for n in nodes.values_mut() {
        n.start().await;
    }
    let mut rng = Rng::new(seed);
    let mut ok = 0u64;
    let mut fail = 0u64;
    for i in 0..200u64 {
        tokio::time::sleep(Duration::from_millis(rng.range(5, 50))).await;
        let target = *rng.pick(&[1u32, 2, 3]);
        let Some(cur) = nodes.get(&target).and_then(|n| n.cur.as_ref()) else { continue };
        let req = ClientWriteRequest {
            client_id: 1,
            command: Some(WriteOperation::Insert {
                key: Bytes::from(format!("k{}", i % 3)),
                value: Bytes::from(format!("c1-{i}")),
                ttl_secs: None,
            }),
        };
        let (tx, rx) = MaybeCloneOneshot::new();
        if cur.cmd_tx.send(ClientCmd::Propose(req, tx)).await.is_err() {
            continue;
        }
        match tokio::time::timeout(Duration::from_millis(500), rx).await {
            Ok(Ok(Ok(r))) if r.error == ErrorCode::Success => ok += 1,
            _ => fail += 1,
        }
    }
    tokio::time::sleep(Duration::from_secs(3)).await;
    let mut logs = serde_json::Map::new();
    for (id, n) in &nodes {
        if let Some(c) = &n.cur {
            logs.insert(
                id.to_string(),
                json!({"last": c.raft_log.last_entry_id(), "first": c.raft_log.first_entry_id(),
                       "durable": c.raft_log.durable_index(),
                       "applied": n.sm_img.lock().unwrap().last_applied.0,
                       "applies": n.sm_obs.lock().unwrap().applies.len()}),
            );
        }
    }
    let o = oracle.lock().unwrap();
    let stats = net.inner.lock().unwrap().stats.clone();
    json!({"seed": seed, "ok": ok, "fail": fail, "vtime_ms": crate::seams::vnow_ms(), "nodes": logs,
           "oracle": o.summary(), "net": format!("{stats:?}"), "draws": crate::seams::random_draws()})
}
